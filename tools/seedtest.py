#!/usr/bin/env python3
"""seedtest: confirm a seeded change and run the checks against it.

  seedtest.py confirm <seeddir> <name>     confirm patch+demo in a fresh scratch worktree, store under /verif/seeded/<name>/
  seedtest.py run <name> [prop...] [--tier quick|thorough]   apply seeded/<name>/patch.diff to /repo, run checks, undo

A change is kept only if: the demonstration passes on the unmodified tree, the change applies, the
library builds and its whole test-suite passes with the change, and the demonstration fails with it.
"""
import json
import os
import re
import shutil
import subprocess
import sys
import time

ROOT = os.path.dirname(os.path.dirname(os.path.abspath(__file__)))
REPO = os.environ.get("SEED_REPO", "/repo")  # SEED_REPO: run against a scratch worktree instead (development)
ENV = dict(os.environ, GOFLAGS="-mod=mod", GOPROXY="off", GOSUMDB="off", GOTOOLCHAIN="local", VERIF_NO_EVIDENCE="1", VERIF_REPO=REPO)


def sh(cmd, cwd=None, timeout=900):
    r = subprocess.run(cmd, shell=True, cwd=cwd, env=ENV, capture_output=True, text=True, timeout=timeout)
    return r.returncode, (r.stdout + r.stderr)


def find_demo(seeddir):
    """Returns (kind, path, pkgdir): kind 'test' or 'prog'."""
    for f in sorted(os.listdir(seeddir)):
        p = os.path.join(seeddir, f)
        if f.endswith("_test.go"):
            first = open(p).readline()
            m = re.match(r"//\s*dir:\s*(\S+)", first)
            pkgdir = m.group(1) if m else None
            if pkgdir is None:
                pk = re.search(r"^package (\w+)", open(p).read(), re.M).group(1)
                pkgdir = {"soy": ".", "pomsg": "soymsg/pomsg"}.get(pk.replace("_test", ""), pk.replace("_test", ""))
            return "test", p, pkgdir
    for f in sorted(os.listdir(seeddir)):
        p = os.path.join(seeddir, f)
        if f.endswith(".go"):
            return "prog", p, None
        if os.path.isdir(p) and any(x.endswith(".go") for x in os.listdir(p)):
            return "progdir", p, None
    return None, None, None


def run_demo(wt, kind, path, pkgdir):
    if kind == "test":
        dst = os.path.join(wt, pkgdir, "zz_seed_demo_test.go")
        shutil.copy(path, dst)
        try:
            names = re.findall(r"^func (Test\w+)\(", open(path).read(), re.M)
            rc, out = sh("go test -vet=off -count=1 -run '^(%s)$' ./%s" % ("|".join(names), pkgdir), cwd=wt)
        finally:
            os.remove(dst)
        return rc, out
    d = os.path.join(wt, "zz_seed_demo")
    if os.path.exists(d):
        shutil.rmtree(d)
    if kind == "prog":
        os.makedirs(d)
        shutil.copy(path, os.path.join(d, "main.go"))
    else:
        shutil.copytree(path, d)
    try:
        rc, out = sh("go run ./zz_seed_demo", cwd=wt)
    finally:
        shutil.rmtree(d, ignore_errors=True)
    return rc, out


def confirm(seeddir, name):
    patch = os.path.join(seeddir, "patch.diff")
    kind, demo, pkgdir = find_demo(seeddir)
    if not os.path.exists(patch) or kind is None:
        print("missing patch.diff or demonstration in", seeddir)
        return 1
    wt = "/tmp/confirm_" + name
    sh("git -C %s worktree remove --force %s" % (REPO, wt))
    rc, out = sh("git -C %s worktree add -q --detach %s HEAD" % (REPO, wt))
    if rc != 0:
        print(out)
        return 1
    res = {}
    try:
        rc, out = run_demo(wt, kind, demo, pkgdir)
        res["demo_unmodified"] = "pass" if rc == 0 else "FAIL"
        rc_a, out_a = sh("git apply %s" % patch, cwd=wt)
        res["applies"] = rc_a == 0
        if rc_a != 0:
            print(out_a)
        rc_b, out_b = sh("go build ./... && go test -vet=off -count=1 ./...", cwd=wt)
        res["suite_with_change"] = "pass" if rc_b == 0 else "FAIL"
        if rc_b != 0:
            print(out_b[-1500:])
        rc_d, out_d = run_demo(wt, kind, demo, pkgdir)
        res["demo_with_change"] = "fail" if rc_d != 0 else "PASSES"
        res["demo_output_with_change"] = out_d[-800:]
        rc, changed = sh("git diff --stat | tail -1", cwd=wt)
        res["diffstat"] = changed.strip()
    finally:
        sh("git -C %s worktree remove --force %s" % (REPO, wt))
    ok = res["demo_unmodified"] == "pass" and res["applies"] and res["suite_with_change"] == "pass" and res["demo_with_change"] == "fail"
    print(json.dumps({k: v for k, v in res.items() if k != "demo_output_with_change"}))
    if not ok:
        print("NOT CONFIRMED")
        return 1
    out = os.path.join(ROOT, "seeded", name)
    os.makedirs(out, exist_ok=True)
    shutil.copy(patch, os.path.join(out, "patch.diff"))
    if os.path.isdir(demo):
        shutil.copytree(demo, os.path.join(out, "demo"), dirs_exist_ok=True)
    else:
        shutil.copy(demo, os.path.join(out, os.path.basename(demo)))
    meta = {}
    mp = os.path.join(seeddir, "meta.json")
    if os.path.exists(mp):
        try:
            meta = json.load(open(mp))
        except Exception:
            meta = {"raw": open(mp).read()}
    meta["confirmation"] = res
    meta["confirmed_at_repo_commit"] = sh("git -C %s rev-parse --short HEAD" % REPO)[1].strip()
    meta["demo_kind"], meta["demo_pkgdir"] = kind, pkgdir
    json.dump(meta, open(os.path.join(out, "meta.json"), "w"), indent=1)
    print("CONFIRMED ->", out)
    return 0


def run(name, props, tier):
    d = os.path.join(ROOT, "seeded", name)
    meta = json.load(open(os.path.join(d, "meta.json")))
    if not props:
        props = [meta.get("property", name.split("-")[0])]
    rc, out = sh("git -C %s status --porcelain" % REPO)
    if out.strip():
        print("/repo is not clean:", out)
        return 1
    rc, out = sh("git -C %s apply %s" % (REPO, os.path.join(d, "patch.diff")))
    if rc != 0:
        print("patch does not apply:", out)
        return 1
    results = {}
    try:
        for p in props:
            t0 = time.time()
            rc, out = sh("./vcheck %s %s" % (p, tier), cwd=ROOT, timeout=7200)
            viol = [l for l in out.splitlines() if l.startswith("VIOLATION")]
            detail = [l.strip()[:300] for l in out.splitlines() if l.startswith("    ")][:4]
            results[p] = {"exit": rc, "violations": len(viol), "wall_s": round(time.time() - t0, 1), "detail": detail,
                          "machinery": [l[:300] for l in out.splitlines() if l.startswith("MACHINERY")][:3]}
            print(p, tier, "exit", rc, "violations", len(viol), "%.0fs" % (time.time() - t0))
            for l in detail:
                print("   ", l)
    finally:
        sh("git -C %s checkout -- ." % REPO)
        sh("git -C %s clean -fdq" % REPO)
    meta.setdefault("check_runs", []).append({"tier": tier, "results": results, "verif_commit": sh("git -C %s rev-parse --short HEAD" % ROOT)[1].strip()})
    json.dump(meta, open(os.path.join(d, "meta.json"), "w"), indent=1)
    return 0


def main():
    a = sys.argv[1:]
    if len(a) >= 3 and a[0] == "confirm":
        return confirm(a[1], a[2])
    if len(a) >= 2 and a[0] == "run":
        tier = "quick"
        if "--tier" in a:
            i = a.index("--tier")
            tier = a[i + 1]
            a = a[:i] + a[i + 2:]
        return run(a[1], a[2:], tier)
    print(__doc__)
    return 2


if __name__ == "__main__":
    sys.exit(main())
