"""Per-property job tables for vcheck. See DESIGN.md §4."""
from vcheck import Job

COMMON_ASSUMPTIONS = [
    "go/packages + go/ssa construct a faithful SSA form of /repo's current working tree (rebuilt on every run)",
    "gosym interpreter and term simplifier (mitigated: every counterexample and a sample of passing path witnesses are replayed against the natively compiled code; observations must agree)",
    "stdlib leaves with symbolic arguments run through the Go models in /verif/models (validated natively by `vcheck --setup`); stdlib calls with concrete arguments run natively",
    "SMT solver z3 4.8.12; any unknown/error/timeout answer is counted as inconclusive, never as unsat",
    "package initialisers are executed for the soy packages and `errors` only; log.* are no-ops; sync.Mutex is a no-op under the engine's one-at-a-time goroutine scheduler",
]

PROPS = {}
HOOK_COMMITS = []
NOT_APPLICABLE = [
    {"property_id": "C04", "reason": "needs the operational semantics of a JavaScript engine executing soyutils.js and the generated code; no symbolic executor for JavaScript exists in this image, encoding the otto interpreter through gosym is out of reach, and a hand-written JS semantics would check the model, not the code"},
]

# ---------------------------------------------------------------- C15
PROPS["C15"] = {
    "jobs": [
        Job("parse", "H_rawtext", "0..4", workers=8),
        Job("parse", "H_rawtextBytes", "1..3", workers=8),
        Job("parse", "H_rawtext", "5", tier="thorough", workers=16),
    ],
    "bounds_quick": "rawtext(s,trimBefore,trimAfter) vs the line-joining rule: every ASCII string (bytes 1..127) of length <= 4 with both flags symbolic; order-preservation of non-whitespace bytes over all 256 byte values for length <= 3",
    "bounds_thorough": "as quick, ASCII length <= 5",
    "outside": "longer text runs",
    "assumptions": ["refRawtext (harness) is the statement's rule written over maximal whitespace runs"],
    "level_text": "Bounded symbolic model checking of the real normaliser: for every text run up to the length bound the solver proves, path by path, that the output equals the line-joining rule; no sampling inside the bound.",
    "level_note": "Bound: run length (see evidence.bounds). Trusted: go/ssa, the gosym interpreter (cross-validated by native replay), z3, the reference rule in the harness.",
}
