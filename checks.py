"""Per-property job tables for vcheck. See DESIGN.md §4."""
from vcheck import Job

COMMON_ASSUMPTIONS = [
    "go/packages + go/ssa construct a faithful SSA form of /repo's current working tree (rebuilt on every run)",
    "gosym interpreter and term simplifier (mitigated: every counterexample and a sample of passing path witnesses are replayed against the natively compiled code; observations must agree)",
    "stdlib leaves with symbolic arguments run through the Go models in /verif/models (validated natively by `vcheck --setup`); stdlib calls with concrete arguments run natively",
    "SMT solver z3 5.1.0 (z3-new) by default, cross-checked against z3 4.8.12 and cvc5 by `vcheck --diff-solvers`; any unknown/error/timeout answer is counted as inconclusive, never as unsat",
    "package initialisers are executed for the soy packages and `errors` only; log.* are no-ops; sync.Mutex is a no-op under the engine's one-at-a-time goroutine scheduler",
]

PROPS = {}
HOOK_COMMITS = ["310e2c7"]
NOT_APPLICABLE = [
    {"property_id": "C04", "reason": "needs the operational semantics of a JavaScript engine executing soyutils.js and the generated code; no symbolic executor for JavaScript exists in this image, encoding the otto interpreter through gosym is out of reach, and a hand-written JS semantics would check the model, not the code"},
]

# ---------------------------------------------------------------- C15
PROPS["C15"] = {
    "jobs": [
        Job("parse", "H_rawtext", "0..4", workers=8),
        Job("parse", "H_rawtextBytes", "1..3", workers=8),
        Job("soyhtml", "H_textlex", "0..3,0..2", workers=16, maxfan=16),
        Job("soyhtml", "H_textlex", "0..2,3..11", workers=16, maxfan=16, note="after commands holding comments"),
        Job("soyhtml", "H_textlex", "3..4,10", workers=16, maxfan=16, note="message text"),
        Job("soyhtml", "H_textlex", "0..4,12", workers=16, maxfan=16, note="message text with capital letters, after the message pass"),
        Job("soyhtml", "H_textlex", "0..4,13", workers=16, maxfan=16, note="directly behind a closed block comment"),
        Job("soyhtml", "H_literal", "0..3", workers=8, maxfan=16),
        Job("parse", "H_rawtext", "5", tier="thorough", workers=16),
        Job("soyhtml", "H_textlex", "4,0..2", tier="thorough", workers=16, maxfan=16),
        Job("soyhtml", "H_textlex", "5,0", tier="thorough", workers=16, maxfan=16),
        Job("soyhtml", "H_textlex", "3,3..11", tier="thorough", workers=16, maxfan=16, note="after commands holding comments"),
    ],
    "bounds_quick": "rawtext(s,trimBefore,trimAfter) vs the line-joining rule: every ASCII string (bytes 1..127) of length <= 4 with both flags symbolic; order-preservation of non-whitespace bytes over all 256 byte values for length <= 3; the whole chain lexer -> text/comment tokens -> rawtext -> render for every template body of <= 3 characters over {a < > space LF CR / * :} between prints, at template start and at template end, and (<= 2 characters; thorough 3) after 7 commands that hold comments of their own (between call params, before a switch case, inside if/foreach/let/param blocks), directly after a header param declaration, and as the text of a message (<= 4 characters: tags become placeholders and are written back unchanged) (comment-free: exact output; with comments: exactly the non-whitespace characters outside comments; unclosed block comment: error); literal blocks of <= 3 characters over {a space { } LF CR TAB / < *} and all special-character commands; message text over the same alphabet with a capital letter, after the message pass of a bundle compilation has run",
    "bounds_thorough": "as quick, ASCII length <= 5; template bodies of 4 characters in all contexts and 5 between prints",
    "outside": "longer text runs",
    "assumptions": ["refRawtext (harness) is the statement's rule written over maximal whitespace runs"],
    "level_text": "Bounded symbolic model checking of the real normaliser: for every text run up to the length bound the solver proves, path by path, that the output equals the line-joining rule; no sampling inside the bound.",
    "level_note": "Bound: run length (see evidence.bounds). Trusted: go/ssa, the gosym interpreter (cross-validated by native replay), z3, the reference rule in the harness.",
}

# ---------------------------------------------------------------- C03
PROPS["C03"] = {
    "jobs": [
        Job("soyhtml", "H_escape", "0..5", workers=16),
        Job("soyhtml", "H_escapeDir", "0..5,0..1", workers=16, note="explicit |escapeHtml, values that look like escaped text"),
        Job("soyhtml", "H_decision", "0..3,0..3,0..8,0", workers=16),
        Job("soyhtml", "H_decision", "0..1,0..1,0..8,1..4", workers=16),
        Job("soyhtml", "H_decision", "0..3,0..3,0..3,4..8", workers=16, note="cross-namespace and cross-file calls"),
        Job("soyhtml", "H_decision", "0..2,0..2,0..8,9", workers=16, note="translated message"),
        Job("soyhtml", "H_decision", "0..3,0..3,0..3,10..11", workers=16, note="after calls into templates of another mode"),
        Job("soyhtml", "H_nonString", "0..4", workers=4),
        Job("soyhtml", "H_escape", "6", tier="thorough", workers=16),
        Job("soyhtml", "H_decision", "0..3,0..3,0..8,1..11", tier="thorough", workers=16, note="all modes in all contexts"),
    ],
    "bounds_quick": "the HTML escaper (through an autoescaped print rendered by the public API) on all strings of <= 5 bytes (256 values each); evalPrint escape decision for $x = any 2 non-NUL bytes under 4x4 namespace/template autoescape attributes x 9 directive chains (direct print) and 2x2 modes x 9 chains in let-content, param-content, msg-placeholder and cross-namespace call contexts; cross-namespace calls from a caller whose template / namespace is autoescape=false / true into a callee with each of the 4x4 namespace/template attributes x 4 chains (the callee's own mode decides), also within one namespace spread over two files with different declarations, in both orders of addition; a print after calls (also inside a content block) into templates of the opposite / an explicit mode; a print in a message rendered through an identity catalogue after a raw print of the same value (3x3 modes x 9 chains); non-string values; the explicit escapeHtml directive on 0..5 symbolic bytes without NUL, with and without autoescaping",
    "bounds_thorough": "escaper <= 6 bytes; all 16 mode pairs in every context",
    "outside": "strings longer than the bound; user-registered directives; changeNewlineToBr is checked under C16 (its regexp replacement through a validated Go model of the pattern); contextual escaping beyond what soy implements",
    "assumptions": ["decodeEntities (harness) is the reference decoder of the five character references"],
    "level_text": "Bounded symbolic model checking of the real escaper and of the real parse+render pipeline around evalPrint: the printed value is symbolic, every path of the escaping code is discharged by the solver, so value-dependent holes (a special character that slips through only for certain values) are found or excluded within the bound.",
    "level_note": "Bounds: value length, directive chains from the built-in table, contexts listed in evidence. Trusted: go/ssa, gosym (native replay), z3, reference decoder.",
}

# ---------------------------------------------------------------- C12
PROPS["C12"] = {
    "jobs": [
        Job("soyhtml", "H_fault", "0..14,0..3,0", workers=16),
        Job("soyhtml", "H_fault", "0..14,0..1,1", workers=16),
        Job("soyhtml", "H_fault", "0..14,0..3,2..3", workers=16, maxfan=300),
        Job("soyhtml", "H_fault", "0..14,0..1,4", workers=16, maxfan=300, note="one transient failure reported as a Temporary/Timeout error"),
        Job("soyhtml", "H_fault", "7..8,4,0..3", workers=8, maxfan=300, note="untranslated plural, n=1"),
        Job("soyhtml", "H_fault", "0..14,2..3,1", tier="thorough", workers=16),
    ],
    "bounds_quick": "15 templates (incl. prints ending in each encoding directive, a template that calls itself, static-text-only templates, directly and through a call, and a template without output) covering every write site (incl. loops over 9 and 10 items) of the tree walker (raw text, escaped/unescaped print, css, literal, special chars, msg text/html tag/placeholder, plural messages (as the last output and followed by output; source cases and the cases of a translating bundle), let and param content blocks, log, call, data=all call, foreach, switch; the msg template also with a translating message bundle) x 4 data strings; four writer models: sticky failure from a symbolically chosen Write call, the same with a symbolic accepted prefix of the failing call (2 data strings), a writer with a symbolic byte capacity that still accepts empty writes once full, and a transient failure of exactly one symbolically chosen call (reported as a plain error, or as an error whose Temporary() and Timeout() are true)",
    "bounds_thorough": "short writes for all 4 data strings",
    "outside": "templates other than the listed ones; writers that fail and later recover",
    "assumptions": ["writer models as listed in bounds; a write that fails accepts a prefix of its argument"],
    "level_text": "Bounded symbolic model checking with the fault schedule as the symbolic input: each Write's outcome is a solver variable, so every failure index (and every accepted-prefix length) of every write site is decided, not sampled.",
    "level_note": "Bounds: the template/data dictionary in evidence.bounds. Trusted: go/ssa, gosym (native replay of every counterexample), z3.",
}

# ---------------------------------------------------------------- C05 / C18 (shared parser harnesses)
def parse_jobs():
    return [
        Job("parse", "H_validFile", "", workers=1),
        Job("parse", "H_parseCtx", "0..81,0..1,false", workers=16, maxsteps=300000),
        Job("parse", "H_exprCtx", "0..21,0..2,false", workers=16, maxsteps=300000),
        Job("parse", "H_parseCtx", "0..81,2,false", workers=16, maxsteps=300000, note="k=2"),
        Job("parse", "H_prefix", "0..738,0", workers=16, maxsteps=600000, note="every prefix"),
        Job("parse", "H_linear", "0..21", workers=16, maxsteps=80000000, note="steps for 2k vs k repeated units"),
        Job("parse", "H_prefix", "0..738,1", tier="thorough", workers=16, maxsteps=600000, note="every prefix + 1 symbolic byte"),
        Job("parse", "H_parseCtx", "0..81,3,true", tier="thorough", workers=16, maxsteps=300000, note="k=3 ascii"),
        Job("parse", "H_exprCtx", "0..21,3,true", tier="thorough", workers=16, maxsteps=300000, note="k=3 ascii"),
    ]

PARSE_BOUNDS_Q = "parse.SoyFile on 82 concrete lexer/parser contexts (incl. every quoted attribute value, empty values included) followed by k <= 2 symbolic bytes (all 256 values); a doubling test of the step count on 22 repeating units (400 vs 800 repetitions); parse.Expr on 22 contexts with k <= 2; every prefix of a 738-byte valid file using every command; step bound 300000 (600000 for prefixes) SSA instructions per path acts as the unwinding assertion"
PARSE_BOUNDS_T = PARSE_BOUNDS_Q + "; thorough adds k = 3 over ASCII for all contexts and every prefix + 1 symbolic byte"

PROPS["C05"] = {
    "jobs": parse_jobs(),
    "viol_filter": r"^(C05:|step bound|call depth|main goroutine blocked|uncaught panic|harness:)",
    "bounds_quick": PARSE_BOUNDS_Q, "bounds_thorough": PARSE_BOUNDS_T,
    "outside": "inputs whose symbolic part is longer than 3 bytes; token-level duplications/swaps of long files; 'time proportional to input' is claimed as: no explored path exceeds the step bound, and for 22 repeating units the steps for 800 units are at most 2.33x the steps for 400 (library calls are charged by a cost model, not measured); beyond that: no explored path exceeds the step bound",
    "assumptions": ["a path exceeding the step bound is reported as a candidate hang and confirmed by running the real parser on the solver's input under a wall clock"],
    "level_text": "Bounded symbolic model checking of the real lexer goroutine + parser under the engine's scheduler: for each context every continuation of k arbitrary bytes is covered path by path; non-termination (step bound), deadlock of the main goroutine and escaping runtime panics are engine verdicts, each confirmed natively.",
    "level_note": "Bounds: contexts x k symbolic bytes (evidence.bounds). Trusted: go/ssa, gosym incl. its cooperative scheduler (exact for one producer/one consumer), z3, stdlib models.",
}
PROPS["C18"] = {
    "jobs": parse_jobs(),
    "viol_filter": r"^C18:",
    "bounds_quick": PARSE_BOUNDS_Q, "bounds_thorough": PARSE_BOUNDS_T,
    "outside": "as C05; soy.ParseGlobals is covered through parse.Expr only",
    "assumptions": ["a goroutine blocked on a channel operation that no live goroutine can complete is a leak; natively confirmed by runtime.NumGoroutine after a grace period"],
    "level_text": "Bounded symbolic model checking: after every explored parse (success, error, trailing input) the engine's scheduler state is inspected; a scanner goroutine that is still blocked is a decidable state predicate per path.",
    "level_note": "Same bounds and trusted base as C05.",
}

# ---------------------------------------------------------------- C10
PROPS["C10"] = {
    "jobs": [
        Job("soymsg", "H_fpKnown", "", workers=1),
        Job("soymsg", "H_fp", "0..25", workers=8, qtimeout=3000, allow_inconclusive=True),
        Job("soymsg", "H_id", "0..4,0..2", workers=8, qtimeout=3000, allow_inconclusive=True),
        Job("soymsg", "H_idMeaning", "0..7,0..2", workers=8, qtimeout=3000, allow_inconclusive=True),
        Job("soymsg", "H_names", "0..19,-1..4", workers=16),
        Job(".", "H_compileRace", "0,0", workers=2, note="ids of two concurrent compilations"),
        Job(".", "H_compileRace", "0,7", workers=2, note="ids of two concurrent compilations"),
        Job("soymsg", "H_baseName", "1..6", workers=16, maxfan=16),
        Job("soymsg", "H_tagName", "1..3,0..3", workers=16, maxfan=16),
        Job("soyhtml", "H_msgPositions", "0..13", workers=8),
        Job("soymsg", "H_fp", "26..40", tier="thorough", workers=8, qtimeout=3000, allow_inconclusive=True, note="3 blocks"),
        Job("soymsg", "H_id", "5..13,0..3", tier="thorough", workers=8, qtimeout=3000, allow_inconclusive=True, note="longer text"),
    ],
    "bounds_quick": "fingerprint vs the official algorithm for every byte string of each length 0..25 (0, 1 and 2 twelve-byte blocks, every tail length); calcID with symbolic text (<= 4 bytes), description (2 bytes, two independent copies) and meaning (<= 2 bytes); the id of 8 structured messages (placeholders, html tags, plural) with a symbolic meaning (<= 2 bytes) and description against the official id of their placeholder string; base-name derivation (toUpperUnderscore and genBasePlaceholderName) for every identifier of <= 6 characters over the whole identifier alphabet (symbolic bytes; the five regular expressions run through the engine's regexp matcher) against a regexp-free reference; the base name of html tags (<n>, </n>, <n/>, <n x=..>) whose name is <= 3 characters over {a,b,i,p,Z,1,-,:,_,space} (pretty names, names ending at the first non-alphanumeric); the id/placeholder pass (parsepasses.ProcessMessages) on a message placed in 14 containers (if/elseif/else, switch cases, foreach/ifempty, for, let content, call param content - also nested -, log) against the same message at top level; message ids and placeholder names computed by two compilations running at once (happens-before check of every heap access, both run-queue disciplines) equal those computed alone; placeholder naming for a dictionary of 16 messages (five with their official placeholder string pinned, incl. text where '<' does not begin a tag) (incl. one expression under different directives / directive arguments / access styles and link tags differing in an attribute) under an arbitrary iteration order of each of the 4 map loops of setPlaceholderNames, one loop at a time; two consecutive suffixed names taken before a base name needs suffixes; one nameless expression as plural selector and as print",
    "bounds_thorough": "fingerprint lengths up to 40; text up to 13 bytes, meaning up to 3",
    "outside": "strings longer than the bound; collision-freeness (a 63-bit id cannot be injective); the branch hi==0 && lo in {0,1} is a hash pre-image question: explored under a 3 s query timeout and counted as inconclusive when the solver gives up; several map loops permuted at once (only one loop's order influences the result, shown per loop); across-process stability follows from calcID reading nothing but the node",
    "assumptions": ["refFingerprint/refID/refNames (harness) are transliterations of the official SoyMsgIdComputer and MsgNode.genSubstUnitInfo; refID is validated on every run against the official ids pinned in soy's tests"],
    "level_text": "Bounded symbolic model checking of the real hash and id code against a transliteration of the official algorithm with all input bytes symbolic, plus map-iteration order as a solver-visible choice for the naming pass.",
    "level_note": "Bounds: input lengths; message dictionary; one permuted loop at a time. Trusted: go/ssa, gosym, z3, the transliterated reference (validated against pinned official ids).",
    "technique": "bounded symbolic execution of the go/ssa form; implementation and reference intern to the same bit-vector term when equal, otherwise z3 finds distinguishing bytes; map order modelled as nondeterministic choices",
}

# ---------------------------------------------------------------- C20
PROPS["C20"] = {
    "jobs": [
        Job("data", "H_equals", "0..10,0..10", workers=8),
        Job("data", "H_truthy", "0..10", workers=4),
        Job("data", "H_index", "0..3", workers=4),
        Job("data", "H_mapString", "false", workers=4),
        Job("data", "H_mapString", "true", workers=8, note="all iteration orders"),
    ],
    "bounds": "all pairs of the 11 value kinds (undefined, null, bool, int64, float64 bit patterns incl. NaN/inf/-0, 1-byte string, empty string, two list and two map instances) with symbolic payloads; List.Index with any int index on lists of length 0..3; Map.Key with any 1-byte key; Map.String of a 4-entry map with symbolic 1-byte values under every iteration order (24 orders)",
    "outside": "conversion from Go values (data.New/NewWith/StructOptions are reflect programs: the engine has no model of reflect over arbitrary host types, so faithfulness and idempotence of conversion are NOT claimed); Tofu.Render's argument conversion for the same reason; strings longer than 1 byte in the value laws; printing of floats/large ints (strconv) is run natively only for concrete values",
    "assumptions": ["reflect.ValueOf(x).Pointer() on a list/map is modelled as the identity of its backing object"],
    "level_text": "Bounded symbolic model checking of data/value.go: value kind pairs are enumerated, payloads (int64, float64 bit patterns, bytes, booleans) are solver variables, so laws that fail only for rare payloads (NaN) are decided rather than sampled. Only the value-law half of the property is claimed.",
    "level_note": "Conversion (data/convert.go) is outside the technique's reach and is not claimed. Trusted: go/ssa, gosym, z3 floating-point theory.",
}

# ---------------------------------------------------------------- C01
PROPS["C01"] = {
    "viol_filter": r"^(?!C06:|C18:)",
    "jobs": [
        Job("soyhtml", "H_binop", "0..13,0..8,0..8", workers=16),
        Job("soyhtml", "H_shortcircuit", "0..4,0..8", workers=8),
        Job("soyhtml", "H_unop", "0..1,0..8", workers=4),
        Job("soyhtml", "H_ternary", "0..8,0..8", workers=8),
        Job("soyhtml", "H_print", "0..8", workers=8),
        Job("soyhtml", "H_dataref", "0..5,0..8", workers=8),
        Job("soyhtml", "H_datarefChain", "0..5,0..5,-1..5,0..12", workers=16),
        Job("soyhtml", "H_collFuncs", "", workers=8),
        Job(".", "H_globalIn", "0..19", workers=8),
        Job("soyhtml", "H_strContains", "0..3,0..2", workers=8),
        Job("soyhtml", "H_func", "0..13,0..3,0..8,0..8,0..2", workers=16, maxsteps=400000, hang_timeout=4.0, allow_unsupported=(r"math\.Pow\(symbolic\)",)),
        Job("parse", "H_minus", "false", workers=4),
        Job("parse", "H_minus", "true", workers=4),
        Job("parse", "H_prec", "0..13,0..13,0..2", workers=16),
        Job("parse", "H_prec", "0..13,0,3..7", workers=8),
        Job("parse", "H_accept", "0..26,0..32", workers=16),
        Job("parse", "H_quote", "0..3", workers=8),
        Job("parse", "H_unquote", "0..2", workers=8),
        Job("parse", "H_unquotePre", "1..4,0..3", workers=16),
        Job("parse", "H_unquotePre", "1,4", workers=16, note="unicode escapes"),
        Job("parse", "H_scanNumber", "1..4", workers=16),
        Job("parse", "H_quote", "4", tier="thorough", workers=16),
        Job("parse", "H_unquote", "3", tier="thorough", workers=16),
        Job("parse", "H_scanNumber", "5", tier="thorough", workers=16),
    ],
    "bounds": "evaluator: every binary operator x every pair of 9 operand kinds (undefined, null, bool, int |i|<=2^31, any float64 bit pattern, 1-byte string, empty string, list, map) with symbolic payloads; unary ops; ternary; short-circuit forms with an erroring skipped operand; data references ([int], ?[int], .key, ?.key, [string], ?[string]) on every kind with index in [-2,3]; printed text for bool/null/string/list/map and ints in [-11,11]",
    "outside": "text of printed floats and of ints beyond [-11,11] (strconv); strings longer than 1 byte as operands; integer overflow (the reference assumes |i| <= 2^31); round() with a precision (math.Pow); randomInt beyond range membership; float arithmetic is checked as 'which IEEE operation on which operands', not re-verified",
    "assumptions": ["refBin/refTruthy/refEquals (harness) transcribe the Soy expression semantics; list/map identity uses one instance per kind"],
    "level_text": "Bounded symbolic model checking of the tree-walking evaluator, lexer and expression parser: operand kinds and program shapes are enumerated, every payload (int64, float64 bits, bytes, bools) is a solver variable; the reference semantics is an independent transcription of the language definition executed by the same engine.",
    "level_note": "Bounds in evidence. Trusted: go/ssa, gosym (native replay), z3 incl. FP theory, the reference semantics in the harness.",
}

# ---------------------------------------------------------------- C06
PROPS["C06"] = {
    "viol_filter": r"^(C06:|step bound|call depth|main goroutine blocked|uncaught panic|harness)",
    "jobs": [
        Job("soyhtml", "H_func", "0..13,0..3,0..8,0..8,0..2", workers=16, maxsteps=400000, hang_timeout=4.0, allow_unsupported=(r"math\.Pow\(symbolic\)",)),
        Job("soyhtml", "H_binop", "0..13,0..8,0..8", workers=16),
        Job("soyhtml", "H_evalExpr", "0..13,0..8", workers=8),
        Job("soyhtml", "H_directive", "0..11,0..2,0..8,0..8,0..2", workers=16, allow_unsupported=(r"encoding/json|reflect|strconv\.FormatFloat",)),
        Job("soyhtml", "H_renderFail", "0..11,0..2,false", workers=8),
        Job("soyhtml", "H_renderFail", "0..11,0..2,true", workers=8),
        Job(".", "H_globals", "0..31,true", workers=8),
        Job(".", "H_globals", "0..31,false", workers=4),
        Job(".", "H_globalsSeq", "0..31,0..5,false", workers=8, note="definitions that depend on one another"),
        Job(".", "H_globalsSeq", "0..31,0..5,true", workers=8, note="a name defined twice"),
        Job(".", "H_globalsSym", "0..23,0..2", workers=16, maxsteps=400000),
        Job("soyhtml", "H_staleTranslation", "0..3,0..2", workers=8, maxsteps=400000),
        Job("soyhtml", "H_afterNotFound", "0..2", workers=4, maxsteps=400000),
    ],
    "bounds": "every built-in function (and an unknown one) with 0..3 arguments of any of 9 value kinds (third argument int/string/undefined), ints in [-4,4]; every binary operator on every operand kind pair; every built-in print directive (and an unknown one) with 0..2 arguments of any kind on a value of any kind (json only on concrete-shaped values); soyhtml.EvalExpr on every operator with an undefined/erroring/well-typed left operand; 12 failing commands at call depth 0..2 in a bundle with and without a second file that redefines the same template names; rendering 3 templates (message at top level, one call deep, plural) through catalogues whose entries do not fit the message (unknown placeholder, plural for a plain message, missing plural case, no parts); soy.ParseGlobals on 29 valid/erroring/malformed definitions (incl. truncated escapes and unterminated literals) and on files of three definitions that redefine or refer to an earlier (valid, undefined, erroring or malformed) one and on 24 expression contexts followed by 0..2 symbolic bytes of any value (line breaks included); step bound 400000 as unwinding assertion",
    "outside": "user-registered functions and directives; data recursion deeper than 2; file-system loading",
    "assumptions": ["rand.Int63n returns an arbitrary value in range"],
    "level_text": "Bounded symbolic model checking: ill-typed use is the input space - argument kinds are enumerated, payloads symbolic; an escaping panic, a deadlock or a path exceeding the step bound is an engine verdict that is then reproduced natively.",
    "level_note": "Bounds in evidence. Trusted: go/ssa, gosym, z3.",
}

# ---------------------------------------------------------------- C08
PROPS["C08"] = {
    # a synchronised write to package-level state (mutex / Once / sync.Map / atomic.Value) may be a
    # benign cache: it is not a verdict by itself, the output oracles decide
    "viol_filter": r"^(?!synchronised .* to frozen global)",
    "jobs": [
        Job("soyhtml", "H_pure", "0..2,0..1,false,0..5", workers=8),
        Job("soyhtml", "H_pure", "0..2,0..1,true,0..7", workers=8),
        Job("soyhtml", "H_pure", "3,0,false,0..6", workers=8, note="through a translating catalogue"),
        Job("soyhtml", "H_pure", "4,0,false,0..5", workers=8, note="deep recursion and data= maps with params"),
        Job("soyhtml", "H_pure", "0..1,0..1,false,8", workers=8, note="after a render of a template that binds only block-form lets at its top level"),
        Job(".", "H_renderAfterJS", "0..1,false", workers=8, note="JS generation between renders"),
        Job(".", "H_renderAfterJS", "0..1,true", workers=8, note="JS generation between renders"),
    ],
    "bounds": "3 two-file template sets covering print, let, if, foreach/ifempty, call with data=all / data=$m / value and content params, msg, css, switch, map and list literals, functions, $ij, and a render that fails half way; data: a symbolic 1-byte string, list of length 0 or 2, nested map; with and without an obligatory print directive; a first render, then optionally a render that fails inside a let-content / param-content / log block or a print, or a render into a writer that starts failing at a symbolically chosen write, then two more renders of the first template, all under frozen memory (one inductive step: no render writes what the next one reads; sync.Pool is modelled as a free list whose contents flow between renders); every later render must write the bytes of the first; a render of a template binding only block-form lets at its top level, with the same data map, in between",
    "outside": "user directives/functions that themselves mutate their arguments; templates outside the dictionary; soyjs generation is checked under C09",
    "assumptions": ["frame argument: if no store executed during a render targets memory reachable from the compiled bundle, the data, the injected data or soy's package-level variables, the state seen by the next render is unchanged, for histories of any length"],
    "level_text": "Bounded symbolic model checking of a frame condition: the engine marks every heap cell reachable from the registry, caller data and soy's package-level variables read-only and reports any Store/MapUpdate/in-place append to them during two renders with symbolic data; byte-identical output of the two renders is asserted as well.",
    "level_note": "Bounds: template dictionary and data shapes in evidence. Trusted: go/ssa, gosym heap model (slices keep Go's capacity/aliasing behaviour), z3.",
    "technique": "symbolic execution of the go/ssa form with a frozen-memory monitor (frame condition over bundle, data, renderer and unsynchronised package-level state) and SMT-decided output equality over render histories (failing renders, other templates, JavaScript generation, another configuration in between); findings confirmed natively by a reflect-based deep digest",
}

# ---------------------------------------------------------------- C09
PROPS["C09"] = {
    # a synchronised write (mutex / Once / sync.Map / atomic.Value) to package-level state or to the
    # renderer is no data race by itself: the happens-before check (H_renderRace, H_compileRace) and
    # the output oracles decide (C08 keeps reporting writes to the compiled bundle, as its text demands)
    "viol_filter": r"^(?!C13:|synchronised .* to frozen )",
    "jobs": [
        Job("soyhtml", "H_pure", "0..2,0..1,false,0..5", workers=8),
        Job("soyhtml", "H_pure", "0..2,0..1,true,0..7", workers=8),
        Job("soyhtml", "H_pure", "3,0,false,0..6", workers=8, note="through a translating catalogue"),
        Job("soyhtml", "H_pure", "4,0,false,0..5", workers=8, note="deep recursion and data= maps with params"),
        Job("soyhtml", "H_pure", "0..1,0..1,false,8", workers=8, note="after a render of a template that binds only block-form lets at its top level"),
        Job(".", "H_renderAfterJS", "0..1,false", workers=8, note="JS generation between renders"),
        Job(".", "H_renderAfterJS", "0..1,true", workers=8, note="JS generation between renders"),
        Job("soyhtml", "H_renderRace", "0..4,0,0..2,0..1", workers=16, note="two renders at once on a cold bundle, happens-before check"),
        Job("soyjs", "H_jsPure", "0..2,false", workers=2),
        Job("soyjs", "H_jsPure", "0..2,true", workers=2),
        Job("parse", "H_parseRace", "0..8", workers=8, note="happens-before check of scanner/parser memory accesses"),
        Job(".", "H_compileRace", "0,7", workers=2, note="two concurrent compilations"),
        Job(".", "H_compileRace", "7,0", workers=2, note="two concurrent compilations"),
        Job(".", "H_compileRace", "0,0", workers=2, note="two concurrent compilations"),
        Job(".", "H_compileRace", "1,14", workers=2, note="two concurrent compilations"),
    ],
    "bounds": "as C08 for Tofu rendering (3 template sets, symbolic data, with/without obligatory directive), plus soyjs.Write of every file of a two-file bundle under both formatters; a happens-before (vector clock) check of every heap access of the scanner goroutine and the parser during 9 parses (valid file, lexical and syntax errors, nested expression parser, parse.Expr with and without trailing input); in every explored render/generation all memory reachable from the compiled registry, the caller's data and every package-level variable of the soy packages is frozen; two renders at once (same or different template; through Tofu.Render, one shared Renderer or one each) on a bundle through which nothing was rendered before, 5 template sets, under the happens-before check (loads, stores, map operations; mutex, channel, WaitGroup and goroutine-creation edges) and both run-queue disciplines",
    "outside": "the interleavings themselves (no schedule is explored and the race detector is not a solver): the property is decided through the sufficient condition 'concurrent calls only read shared memory'; the documented-unsafe Bundle.recompiler; math/rand's internal lock; inside one parse only the accesses of the executions explored are checked for happens-before order (a confirmed finding is re-run natively under the Go race detector)",
    "assumptions": ["Go memory model: calls that only read shared memory and write memory they allocated themselves are race-free and compute what they compute alone"],
    "level_text": "Bounded symbolic model checking of a sufficient non-interference condition: during Tofu rendering and JavaScript generation no store reaches memory that another call could see (registry, data, package-level registries), established on every path with symbolic data.",
    "level_note": "Schedules are not explored; see outside_bounds. Trusted: go/ssa, gosym heap model, z3.",
    "technique": "symbolic execution of the go/ssa form with a frozen-memory monitor over all shared state (unsynchronised writes: sufficient condition for race freedom; synchronised ones are left to the happens-before check) and a vector-clock happens-before check of every heap access and map operation of concurrent parses, compilations and renders, under two run-queue disciplines (an explored choice); not an exploration of all interleavings; races confirmed natively with -race",
}

# ---------------------------------------------------------------- C13
PROPS["C13"] = {
    "jobs": [
        Job("soyjs", "H_jsPure", "0..2,false", workers=2, note="repeated generation from one registry"),
        Job("soyjs", "H_jsPure", "0..2,true", workers=2, note="repeated generation from one registry"),
        Job("soyjs", "H_jsAfterFailure", "0..2,0..2,false", workers=4, note="generation after a failed generation"),
        Job("soyjs", "H_jsAfterFailure", "0..2,0..2,true", workers=4, note="generation after a failed generation"),
        Job("soyjs", "H_jsOrder", "0..4,-1..3,false", workers=8, timeout=300),
        Job("soyjs", "H_jsOrder", "0..4,-1..3,true", workers=8, timeout=300),
        Job(".", "H_bundleFirst", "0..1", workers=2, note="first compilation of a process, both file orders"),
        Job(".", "H_bundle", "0..18,0", workers=8, timeout=400, per_map_site=r"^(ast|data|parse|parsepasses|soyhtml|soyjs|soymsg|template|bundle|globals)"),
        Job(".", "H_bundle", "0..18,1..5", workers=8, timeout=400, note="file insertion orders"),
    ],
    "bounds": "real soy.NewBundle().AddTemplateString(..).AddGlobalsMap(..).Compile() + Tofu rendering + soyjs.Write (ES5 and ES6) for 8 bundles, each compiled twice from the same Bundle object and a third time through CompileToTofu (valid with messages/globals/map literals/cross-file calls; rejected by the data-ref checker, the parser, the globals pass; two independent errors; duplicate template name; header params without soydoc); every map-range site reached in the soy packages is given an arbitrary iteration order, one site at a time (all permutations up to 5 keys; for larger maps an arbitrary key first and an arbitrary key last); all 6 insertion orders of up to 3 files; one bundle (a nameless expression printed in one file and selecting a plural in another) compiled as the first compilation of the process in both file orders against the absolute placeholder names",
    "outside": "two or more loops permuted simultaneously (order dependence that needs a particular combination); bundles outside the dictionary; file-system loading and the watcher",
    "assumptions": ["Go's randomised map iteration is modelled as an arbitrary permutation chosen through solver-visible choice variables; one-site-at-a-time argument of DESIGN 2.6"],
    "level_text": "Bounded symbolic model checking with the environment's nondeterminism (map iteration order, file insertion order) as the symbolic input: every result of compile, render and generate is compared with the reference run for every order within the bound.",
    "level_note": "Bounds in evidence. Trusted: go/ssa, gosym map model, z3.",
    "technique": "symbolic execution of the go/ssa form with map iteration order (one loop at a time) and the run-queue discipline as nondeterministic choice variables, differential against the insertion-order / first-in-first-out run",
}

# ---------------------------------------------------------------- C17
PROPS["C17"] = {
    "jobs": [
        Job("parse", "H_roundLeaf", "0..19,0..7", workers=8),
        Job("parse", "H_roundWrapOp", "0..16,3..7", workers=8),
        Job("parse", "H_roundOperands", "0..16,0..15,0..15", workers=16),
        Job("parse", "H_roundChain", "0..13,150", workers=14, maxsteps=6000000),
        Job("parse", "H_roundStr", "0..2,1..4", workers=16),
        Job("parse", "H_roundOps", "0..16,0..16,0..2", workers=16),
        Job("parse", "H_roundPrint", "0..19,0..3", workers=8),
        Job("parse", "H_roundPrintOps", "0..16,0..16,0..2", workers=16),
        Job("parse", "H_roundParsed", "0..33,0..10", workers=16, note="from source: special words as function names, globals and keys"),
    ],
    "bounds": "expression trees: every leaf kind (ints incl. negative and 2^53, floats incl. integral and exponent forms and 16 boundary magnitudes (2^63, 2^64, 1e15..1e22, 1e-7, max, min subnormal), bool, null, strings of 1 symbolic byte quoted by the real quoteString, data references with every access kind, globals, function calls, list and map literals, empty literals) alone and under negate/not/index/call/list/map/access-chain wrappers; every operator over every pair of 16 operand spellings (null-safe and plain accesses, calls, literals, signs, globals, $ij); flat chains of 150 operands under each binary operator and of 150 accesses; every operator inside each bracketing wrapper (with a symbolic string operand); string literals and map keys of any valid UTF-8 of <= 4 bytes; every operator (14 binary, 2 unary, ternary) over every operator in every operand position (depth 2); print commands with 0..2 directives with arguments; print commands over every operator pair (they start with parentheses, signs, keywords); from source text: each of the 34 words the lexer treats specially as function name, global or key in 11 print-command shapes (what the parser rejects is outside)",
    "outside": "nesting depth > 2 of operators (parenthesisation is decided pairwise, so depth 2 covers each parent/child combination once); strings longer than 4 bytes",
    "assumptions": ["sameTree (harness): structural equality ignoring positions and the Quoted/Name presentation fields"],
    "level_text": "Bounded symbolic model checking over expression trees enumerated up to depth 2 with symbolic string bytes: print with the real String methods, parse with the real parser, compare structurally.",
    "level_note": "Bounds in evidence. Trusted: go/ssa, gosym, z3, sameTree.",
}

# ---------------------------------------------------------------- C19
PROPS["C19"] = {
    "viol_filter": r"^(C19:|C12:|harness)",
    "jobs": [
        Job("parse", "H_errpos", "0..16,0..2,4", workers=16),
        Job("soyhtml", "H_rendererr", "0..2,4,false", workers=8),
        Job("soyhtml", "H_rendererr", "0..2,4,true", workers=8, note="both files in one namespace"),
        Job("soyhtml", "H_writeerrpos", "3", workers=8),
        Job("soyhtml", "H_rendererrKinds", "1..2,0..7", workers=8),
        Job("soyhtml", "H_rendererrAttr", "0..6", workers=8, note="failing expression inside a quoted attribute"),
        Job("soyhtml", "H_rendererrMsg", "4,false", workers=4),
        Job("soyhtml", "H_rendererrMsg", "4,true", workers=4),
        Job("parse", "H_parseCtx", "0..81,0..1,false", workers=16, maxsteps=300000),
        Job("parse", "H_exprCtx", "0..21,0..1,false", workers=16, maxsteps=300000),
        Job("parse", "H_parseCtx", "0..81,2,false", tier="thorough", workers=16, maxsteps=300000, note="k=2"),
        Job("parse", "H_errpos", "0..16,0..2,7", tier="thorough", workers=16, note="7 lines"),
    ],
    "bounds": "parse errors: 12 fault kinds injected on a symbolically chosen line of a 4-line (thorough 7) template body with LF, CRLF and blank-line separators: file name, exact line (point faults) or line within [construct start, end of input] (constructs left open), same numbers in the message text; on the C05 context harnesses (arbitrary symbolic bytes) every parse error carries the given file name and a line within 1..1+count(LF). Render errors: failing command on a symbolically chosen line at call depth 0..2 across two files (in different namespaces and in one shared namespace); render errors of 8 kinds (undefined value, directive / function given a wrong argument, user function panicking with an error value, arithmetic error, unknown directive, failing condition, non-list loop) one and two calls deep in another file; render errors raised inside a {msg} (from the source and through a translating catalogue) whose message also occurs, and renders, in a called template before and after; render errors caused by a write failure at a symbolically chosen write of a 3-line template; a failing expression inside a quoted attribute (call data=, param value=, call name= + data=) or a css command on a symbolically chosen line of the entry template",
    "outside": "column numbers are only required to agree between ErrFilePos and the message text; files longer than the bound",
    "assumptions": [],
    "level_text": "Bounded symbolic model checking: the fault position is a solver-chosen value and, on the context harnesses, the whole input suffix is symbolic; position bookkeeping of every error path reached is compared with the injected position.",
    "level_note": "Bounds in evidence. Trusted: go/ssa, gosym, z3.",
}

# ---------------------------------------------------------------- C16
PROPS["C16"] = {
    "jobs": [
        Job("soyhtml", "H_escapeUri", "0..3", workers=8),
        Job("soyhtml", "H_escapeJs", "0..2,0..4", workers=8),
        Job("soyhtml", "H_truncate", "0..3,0..5,0..2", workers=16),
        Job("soyhtml", "H_truncate", "5,4,0..1", workers=16, note="ellipsis with multi-byte characters"),
        Job("soyhtml", "H_wordBreaks", "0..3,1..3", workers=16),
        Job("soyhtml", "H_newlineToBr", "0..4", workers=8, maxfan=300),
        Job("soyhtml", "H_chain", "0..4", workers=8),
        Job("soyhtml", "H_printPath", "0..6,0..2", workers=8),
        Job("soyhtml", "H_printPathMsg", "false", workers=8),
        Job("soyhtml", "H_printPathMsg", "true", workers=8),
        Job("soyjs", "H_jsChain", "0..7,false", workers=4, note="order of the JavaScript counterparts"),
        Job("soyjs", "H_jsChain", "0..7,true", workers=4, note="order of the JavaScript counterparts"),
        Job("soyhtml", "H_json", "0..3,0..2", workers=16),
        Job("soyhtml", "H_json", "0,3", tier="thorough", workers=16),
        Job("soyhtml", "H_escapeUri", "4", tier="thorough", workers=16),
        Job("soyhtml", "H_escapeJs", "3,0..4", tier="thorough", workers=16),
        Job("soyhtml", "H_truncate", "4..5,0..8,0..2", tier="thorough", workers=16),
        Job("soyhtml", "H_newlineToBr", "5", tier="thorough", workers=16, maxfan=300),
    ],
    "bounds_quick": "escapeUri: every string of <= 3 bytes (all 256 values); escapeJsString: <= 2 ASCII bytes (incl. controls) optionally with one of U+00E9/U+2028/U+2029/U+FEFF; truncate: valid UTF-8 strings of <= 3 bytes, limit 0..5, ellipsis default/true/false, and 5-byte strings with limit 4 and the ellipsis on; insertWordBreaks:k (k 1..3) on <= 3 ASCII bytes; changeNewlineToBr on every string of <= 4 bytes other than NUL (the regexp replacement `\\r\\n|\\r|\\n` is summarised by a Go model validated natively against package regexp); 5 chains of two directives through parser and renderer; every encoding directive through the print command on strings of 0..2 bytes (the print path adds or drops nothing), and with different arguments on one value inside a message rendered from the source and through an identity catalogue; the JavaScript emitted for 8 directive chains applies the JavaScript counterparts left to right with their own arguments, autoescaping last; |json on strings of <= 2 bytes of valid UTF-8 (all byte values), alone and inside lists/maps with booleans, null, undefined and small ints, against a reference JSON parser (encoding/json's string encoding is a Go model validated natively against json.Marshal; structure and key order are produced as encoding/json documents them)",
    "bounds_thorough": "escapeUri 4 bytes; escapeJsString 3 bytes; truncate strings of <= 5 bytes with limits 0..8; changeNewlineToBr length 5",
    "outside": "|json of floats and of values outside the listed shapes (encoding/json itself works through reflection and is replaced by a model for strings plus the documented structure rules); the JavaScript counterparts in soyutils.js (no JavaScript semantics in the engine); bidi directives (unimplemented in soy); longer strings",
    "assumptions": ["refJSString (harness): reference decoder of ECMAScript string literal bodies, rejecting raw quotes, line terminators, control characters and < > &"],
    "level_text": "Bounded symbolic model checking of the Go directive implementations with the value's bytes symbolic; decodability is checked by independent reference decoders executed by the same engine. Only the Go half of the property is claimed.",
    "level_note": "The JS-side directives are outside the technique's reach here; json is covered through a validated model of encoding/json's string encoding. Trusted: go/ssa, gosym, z3, stdlib models (validated natively), reference decoders.",
}

# ---------------------------------------------------------------- C14
PROPS["C14"] = {
    "jobs": [
        Job("soyjs", "H_jsLiteral", "0..5,0..2,0", workers=16),
        Job("soyjs", "H_jsLiteral", "0..5,0..1,1..5", workers=16),
        Job("soyjs", "H_jsLong", "0..5,0..4,0..5,0..3", workers=16, maxsteps=3000000, note="long text"),
        Job("soyjs", "H_jsLong", "0..5,5..6,0..5,0..3", tier="thorough", workers=16, maxsteps=3000000, note="longer text"),
        Job("soyjs", "H_jsLiteralIn", "0..15,0..2", workers=8),
        Job("soyjs", "H_jsSource", "0..3", workers=16),
        Job("soyjs", "H_jsSourceX", "0..1,1", workers=4, note="through soyjs.Write with a two-byte character"),
        Job("soyjs", "H_jsSourceX", "0..1,4", workers=4, note="through soyjs.Write with a character outside the BMP"),
        Job("soyjs", "H_jsStruct", "0..5,false", workers=4),
        Job("soyjs", "H_jsStruct", "0..5,true", workers=4),
        Job("soyjs", "H_jsLiteral", "0..5,3,0", tier="thorough", workers=16),
    ],
    "bounds_quick": "string emission at 6 sites (raw text, string literal, map literal key, css suffix, global string value, message text) with <= 2 symbolic ASCII bytes (all 128 values incl. quotes, backslash, controls, line terminators), and <= 1 byte combined with U+00E9, U+2028, U+2029, U+1F600 or the text </script>: the emitted token is one well-formed, script-safe literal (for appended text: one or several append statements, each literal valid UTF-8) that decodes to the original characters; the same literal at 16 positions of commands (print, call param values with and without data=all, let, if, switch case, function and directive arguments, index, loop list, ?: and ternary operands, call data map, message placeholder, css, log) is emitted as the same token; a literal of <= 3 symbolic characters spelled in template source (with the language's escapes) through the real parser and the generator; long text: a padding that places a 2-, 3- or 4-byte character (U+00E9, U+20AC, U+2028, U+1F600) across or next to every power-of-two offset 64..1024 (thorough: ..4096) followed by a symbolic byte, at each site; structure of the generated files for 6 bundles (incl. control flow with empty branches and bodies; every else follows a closing brace) (incl. namespaces with repeated segments) x 2 formatters (every prefix of the namespace declared outermost first before the functions, one function per template under its qualified/exported name, balanced brackets outside literals, identifier-shaped variable names); a source literal with a two-byte and with an astral character through soyjs.Write",
    "bounds_thorough": "3 symbolic bytes per site",
    "outside": "full-script syntactic validity: needs a JavaScript parser inside the solver loop, which is not available; only literal tokens and the bracket/definition structure are decided. Whole-template generation with symbolic text through the parser.",
    "assumptions": ["refJSLiteral (harness): reference decoder of ECMAScript string literal bodies"],
    "level_text": "Bounded symbolic model checking of the generator's literal emission: the characters of each template-originated string are symbolic and the emitted token is decoded by a reference ECMAScript literal decoder. Well-formedness of the whole script is only partly covered (structure checks).",
    "level_note": "Narrowed: literals and structure, not the whole-script grammar. Trusted: go/ssa, gosym, z3, text/template.JSEscape model (validated natively), reference decoder.",
}

# ---------------------------------------------------------------- C02
PROPS["C02"] = {
    "jobs": [
        Job("soyhtml", "H_program", "2,2,0..2", workers=16, timeout=900),
        Job("soyhtml", "H_programBlocks", "2,3", workers=16, timeout=900),
        Job("soyhtml", "H_forRange", "1..3", workers=16),
        Job("soyhtml", "H_callNames", "0..7", workers=8),
        Job("soyhtml", "H_switchLit", "0..8", workers=8),
        Job("soyhtml", "H_css", "0..2,0..2", workers=8, note="css command with a base expression of any value"),
        Job("soyhtml", "H_programBlocks", "3,4", tier="thorough", workers=16, timeout=3000),
        Job("soyhtml", "H_program", "2,3,1", tier="thorough", workers=16, timeout=5000),
    ],
    "bounds_quick": "template bodies generated from the command grammar (raw text, print, if/else, foreach/ifempty with isLast, let value, let content, call with data=all / data=$m / none and an optional param, switch with multi-value case/default, for-range, special characters/literal/css/log/msg) with at most 2 generated nodes (thorough: 3 and 4) up to nesting depth 2, followed by a fixed trailer printing the params, list lengths 0..2; names drawn from {a,b,i} so that lets shadow params and loop variables; data: a symbolic bool, b symbolic in {p,q}, a list and a map; a second generator profile restricted to output-redirecting blocks (text, print, let content, call with a content param, nested in each other) with at most 3 nodes, depth 2 (thorough: 4 nodes, depth 3); compiled by the real parser (without the data-reference check so that unbound names reach the renderer) and rendered by the real interpreter; compared with an independent big-step reference semantics with block scoping and call isolation; {css $b, suffix} with a base of 0..2 symbolic bytes, an int or a boolean",
    "bounds_thorough": "3 generated nodes of the full grammar with a one-element list (about 9*10^5 paths, 12 min; all three list lengths did not finish in 50 min and are not registered); content-block profile with 4 nodes, depth 3",
    "outside": "programs beyond the size bound; recursion beyond depth 2; header params",
    "assumptions": ["refRender (c02Env in the harness) is an independent transcription of the Soy command semantics: a let or loop variable lives in the block that introduces it; a callee sees the passed data plus its params only"],
    "level_text": "Bounded model checking over programs: the program is chosen through solver-visible choice variables over the command grammar (an exhaustive enumeration within the size bound, driven through the symbolic executor), the data is symbolic; every program is run through the real parser and interpreter and through an independent reference interpreter.",
    "level_note": "Over programs the check enumerates; over data the solver decides. Trusted: go/ssa, gosym, z3, the reference semantics.",
}

# ---------------------------------------------------------------- C07
PROPS["C07"] = {
    "jobs": [
        Job("soyhtml", "H_datarefs", "2,2,true,true", workers=16, timeout=900),
        Job("soyhtml", "H_datarefsLate", "1,2,1", workers=16, timeout=900),
        Job("soyhtml", "H_datarefsCalls", "1,3,false,false", workers=16, timeout=900, note="lets and loop variables named like callee params around data=all calls"),
        Job("soyhtml", "H_datarefsCalls", "1,3,true,false", workers=16, timeout=900),
        Job("soyhtml", "H_datarefsBind", "2,3,false,false", workers=16, timeout=900),
        Job("soyhtml", "H_datarefsBind", "2,3,true,false", workers=16, timeout=900),
        Job("soyhtml", "H_datarefsBind", "2,3,true,true", workers=16, timeout=900),
        Job("soyhtml", "H_datarefsBind", "2,4,false,false", tier="thorough", workers=16, timeout=3000),
        Job("soyhtml", "H_datarefsBind", "2,4,true,false", tier="thorough", workers=16, timeout=3000),
        Job("soyhtml", "H_bothParamStyles", "0..2", workers=2),
        Job(".", "H_recompile", "0..15", workers=4),
        Job("soyhtml", "H_datarefs", "1,2,false,true", tier="thorough", workers=16, timeout=3000),
        Job("soyhtml", "H_datarefsLate", "1,2,2", tier="thorough", workers=16, timeout=3000),
        Job("soyhtml", "H_datarefs", "2,2,true,false", tier="thorough", workers=16, timeout=3000),
        Job("soyhtml", "H_datarefs", "2,2,false,false", tier="thorough", workers=16, timeout=3000),
    ],
    "bounds_quick": "bundles generated around binding structure: a template with params l, m and (by configuration) a / optional b, a body of at most 2 generated nodes up to nesting depth 2 among print ($a,$b,$c,$i,$ij.x), let value / let content (names a, c, ij), if, foreach, call (existing callee with optional params, callee with a required param, missing callee; data none/all/$m; param k, undeclared zz, required q; value or content param) plus a fixed trailer; the soydoc of the callee with a required param lists it before or after the optional one (a choice); a second generator profile restricted to binding structure (print, let value, let content, if, foreach; lets may be named like the loop variable) with 3 nodes, with and without the params a and b declared (so that every declared name can be used within the budget); CheckDataRefs accepts exactly the bundles the declarative rule set accepts; for accepted bundles a render with every declared param supplied triggers the lookup observer (hook) only for optional params a callee was not passed; the same bundles followed or preceded by a template with an unused param (state carried from one template's check to the next); both-param-styles rule on 3 concrete templates; 14 bundles with header or soydoc params, calls through an alias into a namespace and a sub-namespace (required / undeclared params of the aliased callee), incl. templates without a soydoc comment after a documented one (valid, or with one rule broken), compiled repeatedly through one Bundle value; a third generator profile (3 nodes: prints, lets named like callee params q/a/k, loops, calls with data=all or without data) for what data=all forwards",
    "bounds_thorough": "the other param-declaration configurations; binding-structure profile with 4 nodes. (3 nodes of the full grammar were tried: > 2.4 million paths, not finished in 50 min, not registered.)",
    "outside": "bundles beyond the size bound; {msg} bodies; several files/namespaces (the rules are per template and callee lookup is by qualified name)",
    "assumptions": ["c07Check (harness) is a declarative transcription of the rules in the property statement: references resolve to the innermost enclosing let defined earlier, a loop variable inside its loop, a declared param, or $ij; data=\"all\" forwards params (never lets) and counts as their use"],
    "level_text": "Bounded model checking over programs: bundles are chosen through solver-visible choices over a grammar centred on binding structure (exhaustive within the size bound), compiled by the real parser, registry and checker, and compared with a declarative reference of the rules; the consequence for rendering is observed through a build-tagged hook in scope.lookup.",
    "level_note": "Hook: soyhtml/verif_on.go (tag verif). Trusted: go/ssa, gosym, z3, the reference rule set.",
}

# ---------------------------------------------------------------- C11
PROPS["C11"] = {
    "jobs": [
        Job("soymsg/pomsg", "H_roundtrip", "0..10,0..3,0..2", workers=16, timeout=900),
        Job("soymsg/pomsg", "H_plural", "1..3", workers=8, timeout=600),
        Job("soymsg/pomsg", "H_pluralCases", "0..4", workers=8, timeout=600),
        Job("soymsg/pomsg", "H_catalogue", "0..3", workers=8, timeout=600),
        Job("soymsg/pomsg", "H_catalogueTr", "0..7,1", workers=8, timeout=600, note="partly translated catalogue, singular in use"),
        Job("soymsg/pomsg", "H_catalogueTr", "0..7,5", workers=8, timeout=600, note="partly translated catalogue, other form in use"),
        Job("soymsg/pomsg", "H_sameID", "0..2", workers=8, timeout=600),
        Job("soymsg/pomsg", "H_distinctIDs", "1..37", workers=8, timeout=600),
    ],
    "bounds": "11 messages (tags whose names contain - : _; one directive with different arguments; literal braces next to placeholders; text only; text + placeholders; repeated equal expressions; html tags; two expressions that differ only in parenthesisation; colliding placeholder base names; one expression printed with different directives; two link tags with different attributes) in 4 contexts (plain, inside a foreach, inside the content block of a call param, inside a called template) x 3 catalogues built with the real extraction functions (pomsg.Validate/Msgid/MsgidPlural -> newMessage -> soymsg.Parts): identity, parts reversed, message absent; data: symbolic int in [0,2] and a symbolic byte from {a,b,c,<}; pairs of messages that share an id (same text and placeholder names, different expressions) in one template; a three-message bundle (plural + two plain) loaded through the real newBundle from PO entries in 4 orders; plural message with {case 1}+{default} under catalogues with 1, 2 and 3 plural forms where the bundle's PluralCase returns an arbitrary index below the number of forms, or the English rule; a catalogue loaded through newBundle in which every subset of {singular form, other form, plain message} is really translated and the rest repeats the source, n = 1 and 5",
    "outside": "PO text syntax and file loading (robfig/gettext/po), locale fallback (x/text/language), the xgettext-soy main wrapper (its extract function is three calls which the harness mirrors), the JavaScript backend (no JS semantics in the engine); messages outside the dictionary; soymsg.Parts runs its regexp natively on concrete text",
    "assumptions": ["the expected value of a placeholder is what the real renderer prints for a template consisting of that expression alone (the evaluator itself is checked under C01)"],
    "level_text": "Bounded symbolic model checking of the extraction -> catalogue -> render pipeline for a message dictionary with symbolic data and a symbolic plural-form index: translated output is compared with the composition of the parts' own renderings.",
    "level_note": "Go side only; PO files and JS are outside. Trusted: go/ssa, gosym, z3.",
}
