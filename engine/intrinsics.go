package main

import (
	"encoding/json"
	"fmt"
	"go/constant"
	"go/types"
	"math"
	"sort"
	"strings"
	"unicode"

	"golang.org/x/tools/go/ssa"
)

func constantString(c *ssa.Const) string { return constant.StringVal(c.Value) }

type intrinsic func(in *Interp, caller *frame, args []Value) Value

// verifIntrinsics: the harness runtime (zz_verif_rt.go); intercepted by name.
var verifIntrinsics = map[string]intrinsic{}

// intrinsics replace the function always.
var intrinsics = map[string]intrinsic{}

// symIntrinsics replace the function when no host call (all-concrete) and no Go model applied.
var symIntrinsics = map[string]intrinsic{}

func symBytes(in *Interp, n int) []Value {
	b := make([]Value, n)
	for i := range b {
		b[i] = in.newInput("b", 8)
	}
	return b
}

func init() {
	verifIntrinsics["verifByte"] = func(in *Interp, _ *frame, _ []Value) Value { return in.newInput("b", 8) }
	verifIntrinsics["verifInt"] = func(in *Interp, _ *frame, _ []Value) Value { return in.newInput("i", 64) }
	verifIntrinsics["verifInt64"] = verifIntrinsics["verifInt"]
	verifIntrinsics["verifUint32"] = func(in *Interp, _ *frame, _ []Value) Value { return in.newInput("u", 32) }
	verifIntrinsics["verifRune"] = func(in *Interp, _ *frame, _ []Value) Value { return in.newInput("r", 32) }
	verifIntrinsics["verifBool"] = func(in *Interp, _ *frame, _ []Value) Value { return in.newInput("p", 1) }
	verifIntrinsics["verifFloat64"] = func(in *Interp, _ *frame, _ []Value) Value { return FSym{in.newInput("f", 64)} }
	verifIntrinsics["verifString"] = func(in *Interp, _ *frame, a []Value) Value {
		return mkStr(symBytes(in, int(a[0].(int64))))
	}
	verifIntrinsics["verifBytes"] = func(in *Interp, _ *frame, a []Value) Value {
		return symBytes(in, int(a[0].(int64)))
	}
	verifIntrinsics["verifAssume"] = func(in *Interp, _ *frame, a []Value) Value {
		switch c := a[0].(type) {
		case bool:
			if !c {
				panic(abortPath{kind: "infeasible", reason: "assume false"})
			}
		case *Term:
			in.ex.Assume(c)
		}
		return nil
	}
	verifIntrinsics["verifAssert"] = func(in *Interp, _ *frame, a []Value) Value {
		msg := concString(a[1], in.ex.model, map[*Term]uint64{})
		switch c := a[0].(type) {
		case bool:
			if !c {
				in.ex.violation("assert", msg, in.ex.model)
				panic(abortPath{kind: "infeasible", reason: "assert failed concretely"})
			}
		case *Term:
			in.ex.Assert(c, msg)
		}
		return nil
	}
	verifIntrinsics["verifChoose"] = func(in *Interp, _ *frame, a []Value) Value {
		return int64(in.ex.Choose(int(a[0].(int64)), "verifChoose"))
	}
	verifIntrinsics["verifObserve"] = func(in *Interp, _ *frame, a []Value) Value {
		in.ex.obs = append(in.ex.obs, obsEntry{a[0].(string), a[1]})
		return nil
	}
	verifIntrinsics["verifObserveInt"] = verifIntrinsics["verifObserve"]
	verifIntrinsics["verifLiveGoroutines"] = func(in *Interp, _ *frame, _ []Value) Value {
		n := 0
		lifo := in.sched.lifo
		in.sched.lifo = false        // (yielding to oneself under last-in-first-out would never end)
		for len(in.sched.runq) > 0 { // let runnable goroutines reach a blocking point or exit
			in.sched.makeRunnable(in.sched.cur)
			in.sched.block()
		}
		in.sched.lifo = lifo
		for _, g := range in.sched.all[1:] {
			if !g.done {
				n++
			}
		}
		return int64(n)
	}
	// verifFreeze(label, roots...): every cell reachable from the roots becomes read-only.
	verifIntrinsics["verifFreeze"] = func(in *Interp, _ *frame, a []Value) Value {
		lbl := a[0].(string)
		seen := map[interface{}]bool{}
		for _, r := range a[1].([]Value) {
			in.freeze(r, lbl, seen)
		}
		return nil
	}
	// verifFreezeGlobals(): all package-level variables of the soy packages become read-only.
	verifIntrinsics["verifFreezeGlobals"] = func(in *Interp, _ *frame, a []Value) Value {
		seen := map[interface{}]bool{}
		// package-level variables get their cell on first use: give every variable of the soy
		// packages one now, so that a variable first touched during the frozen section (a cache
		// that starts out empty) is monitored as well
		for _, pkg := range in.prog.AllPackages() {
			if pkg.Pkg == nil || !strings.HasPrefix(pkg.Pkg.Path(), "github.com/robfig/soy") {
				continue
			}
			if !in.initPkgs[pkg.Pkg.Path()] {
				continue
			}
			for _, mem := range pkg.Members {
				if g, ok := mem.(*ssa.Global); ok && !strings.HasPrefix(g.Name(), "verif") {
					in.global(g)
				}
			}
		}
		for g, cell := range in.globals {
			if g.Pkg == nil || !strings.HasPrefix(g.Pkg.Pkg.Path(), "github.com/robfig/soy") {
				continue
			}
			if strings.HasPrefix(g.Name(), "verif") {
				continue
			}
			in.freeze(cell, "global "+g.Pkg.Pkg.Name()+"."+g.Name(), seen)
		}
		return nil
	}
	// verifSchedChoice(): from here on the run queue is served first-in-first-out or last-in-
	// first-out, an explored choice (both are schedules the Go runtime may produce). Results that
	// differ between the two depend on goroutine scheduling.
	verifIntrinsics["verifSchedChoice"] = func(in *Interp, _ *frame, a []Value) Value {
		in.sched.lifo = in.ex.Choose(2, "select: run-queue discipline") == 1
		return nil
	}
	verifIntrinsics["verifConfirmingFrozen"] = func(in *Interp, _ *frame, a []Value) Value { return false }
	verifIntrinsics["verifUnfreeze"] = func(in *Interp, _ *frame, a []Value) Value {
		in.frozen, in.frozenMap = nil, nil
		return nil
	}
	// verifMapOrder(site): from now on, ranges over maps at source positions containing site
	// ("all" for every site, "" to switch off) iterate in an arbitrary order.
	verifIntrinsics["verifMapOrder"] = func(in *Interp, _ *frame, a []Value) Value {
		in.mapOrder = a[0].(string)
		return nil
	}
	verifIntrinsics["verifMapOrderArg"] = func(in *Interp, _ *frame, a []Value) Value {
		in.mapOrder = in.conf.mapOrder
		return in.mapOrder
	}
	verifIntrinsics["verifUnicodeIsPrint"] = func(in *Interp, fr *frame, a []Value) Value {
		return symIntrinsics["unicode.IsPrint"](in, fr, a)
	}
	verifIntrinsics["verifUnicodeIsSpace"] = func(in *Interp, fr *frame, a []Value) Value {
		return symIntrinsics["unicode.IsSpace"](in, fr, a)
	}
	verifIntrinsics["verifModelUnsupported"] = func(in *Interp, fr *frame, a []Value) Value {
		in.unsupported("stdlib model outside its domain: " + fmt.Sprint(a[0]))
		return nil
	}
	verifIntrinsics["verifNaN"] = func(in *Interp, fr *frame, a []Value) Value { return math.NaN() }
	verifIntrinsics["verifInf"] = func(in *Interp, fr *frame, a []Value) Value { return math.Inf(1) }
	verifIntrinsics["verifSignbit"] = func(in *Interp, fr *frame, a []Value) Value {
		switch x := a[0].(type) {
		case float64:
			return math.Signbit(x)
		case FSym:
			return simpBool(Eq(Extract(x.T, 63, 63), Const(1, 1)))
		}
		panic("verifSignbit")
	}
	verifIntrinsics["verifDeepDigest"] = func(in *Interp, fr *frame, a []Value) Value { return "" }
	// verifRaceTrack(on): happens-before checking of every heap access from now on (race.go)
	verifIntrinsics["verifRaceTrack"] = func(in *Interp, fr *frame, a []Value) Value {
		in.raceOn = a[0].(bool)
		if in.raceOn && in.shadows == nil {
			in.shadows = map[*Value]*shadow{}
		}
		return nil
	}
	verifIntrinsics["verifSteps"] = func(in *Interp, _ *frame, a []Value) Value { return int64(in.steps) }
	verifIntrinsics["verifSymbolic"] = func(in *Interp, _ *frame, a []Value) Value { return true }

	// ---- fmt ----
	intrinsics["fmt.Sprintf"] = func(in *Interp, fr *frame, a []Value) Value {
		return in.sprintf(fr, a[0], a[1].([]Value))
	}
	intrinsics["fmt.Errorf"] = func(in *Interp, fr *frame, a []Value) Value {
		s := in.sprintf(fr, a[0], a[1].([]Value))
		return in.call(fr, in.lookupFunc("errors", "New"), []Value{s})
	}
	intrinsics["fmt.Sprint"] = func(in *Interp, fr *frame, a []Value) Value {
		return in.sprint(fr, a[0].([]Value), false)
	}
	intrinsics["fmt.Sprintln"] = func(in *Interp, fr *frame, a []Value) Value {
		return in.sprint(fr, a[0].([]Value), true)
	}
	fprint := func(mk func(in *Interp, fr *frame, a []Value) Value) intrinsic {
		return func(in *Interp, fr *frame, a []Value) Value {
			s := mk(in, fr, a[1:])
			w := a[0].(Iface)
			if w.T == nil {
				in.rtPanic("invalid memory address or nil pointer dereference")
			}
			f := in.findMethod(w.T, "Write")
			if f == nil {
				panic("Fprint: writer without Write")
			}
			b := append([]Value{}, strBytes(s)...)
			return in.call(fr, f, []Value{w.V, b})
		}
	}
	intrinsics["fmt.Fprintf"] = fprint(func(in *Interp, fr *frame, a []Value) Value { return in.sprintf(fr, a[0], a[1].([]Value)) })
	intrinsics["fmt.Fprint"] = fprint(func(in *Interp, fr *frame, a []Value) Value { return in.sprint(fr, a[0].([]Value), false) })
	intrinsics["fmt.Fprintln"] = fprint(func(in *Interp, fr *frame, a []Value) Value { return in.sprint(fr, a[0].([]Value), true) })
	intrinsics["fmt.Println"] = func(in *Interp, fr *frame, a []Value) Value { return Tuple{int64(0), Iface{}} }
	intrinsics["fmt.Printf"] = intrinsics["fmt.Println"]
	intrinsics["fmt.Print"] = intrinsics["fmt.Println"]

	count := func(in *Interp, _ *frame, a []Value) Value {
		var b []Value
		switch x := a[0].(type) {
		case []Value:
			b = x
		default:
			b = strBytes(x)
		}
		c := byteTerm(a[1])
		sum := Const(64, 0)
		for _, x := range b {
			sum = bvBin("bvadd", sum, Ite(Eq(byteTerm(x), c), Const(64, 1), Const(64, 0)))
		}
		return simpInt(kInt, 64, sum)
	}
	intrinsics["internal/bytealg.CountString"] = count
	intrinsics["internal/bytealg.Count"] = count
	intrinsics["internal/bytealg.MakeNoZero"] = func(in *Interp, _ *frame, a []Value) Value {
		n := int(a[0].(int64))
		s := make([]Value, n)
		for i := range s {
			s[i] = uint64(0)
		}
		return s
	}
	nop := func(in *Interp, _ *frame, a []Value) Value { return nil }
	for _, n := range []string{"log.Println", "log.Printf", "log.Print", "runtime.Gosched", "runtime.GC", "os.Exit"} {
		intrinsics[n] = nop
	}
	// methods of *log.Logger write nothing, but dereference their receiver like the real ones
	logm := func(in *Interp, _ *frame, a []Value) Value {
		if p, ok := a[0].(*Value); ok && p == nil {
			in.rtPanic("invalid memory address or nil pointer dereference")
		}
		return nil
	}
	for _, n := range []string{"(*log.Logger).Print", "(*log.Logger).Printf", "(*log.Logger).Println", "(*log.Logger).Output",
		"(*log.Logger).Fatal", "(*log.Logger).Fatalf", "(*log.Logger).SetOutput", "(*log.Logger).SetFlags", "(*log.Logger).SetPrefix"} {
		intrinsics[n] = logm
	}
	intrinsics["math.Float64frombits"] = func(in *Interp, _ *frame, a []Value) Value {
		switch x := a[0].(type) {
		case uint64:
			return math.Float64frombits(x)
		case *Term:
			return FSym{x}
		}
		panic("Float64frombits")
	}
	intrinsics["math.Float64bits"] = func(in *Interp, _ *frame, a []Value) Value {
		switch x := a[0].(type) {
		case float64:
			return math.Float64bits(x)
		case FSym:
			return x.T
		}
		panic("Float64bits")
	}
	intrinsics["math.NaN"] = func(in *Interp, _ *frame, a []Value) Value { return math.NaN() }
	intrinsics["math.Inf"] = func(in *Interp, _ *frame, a []Value) Value {
		if s, ok := a[0].(int64); ok {
			return math.Inf(int(s))
		}
		in.unsupported("math.Inf(symbolic)")
		return nil
	}
	intrinsics["math.IsNaN"] = func(in *Interp, _ *frame, a []Value) Value {
		switch x := a[0].(type) {
		case float64:
			return math.IsNaN(x)
		case FSym:
			return simpBool(fpIsNaN(x.T))
		}
		panic("IsNaN")
	}
	fpun := func(op string, f func(float64) float64) intrinsic {
		return func(in *Interp, _ *frame, a []Value) Value {
			switch x := a[0].(type) {
			case float64:
				return f(x)
			case FSym:
				return simpFloat(fpUn(op, x.T))
			}
			panic(op)
		}
	}
	intrinsics["math.Floor"] = fpun("fp.floor", math.Floor)
	intrinsics["math.Ceil"] = fpun("fp.ceil", math.Ceil)
	intrinsics["math.Trunc"] = fpun("fp.trunc", math.Trunc)
	intrinsics["math.Abs"] = fpun("fp.abs", math.Abs)
	intrinsics["math.Pow"] = func(in *Interp, _ *frame, a []Value) Value {
		x, ok1 := a[0].(float64)
		y, ok2 := a[1].(float64)
		if !ok1 || !ok2 {
			in.unsupported("math.Pow(symbolic)")
		}
		return math.Pow(x, y)
	}
	intrinsics["log.New"] = func(in *Interp, _ *frame, a []Value) Value {
		c := new(Value) // a non-nil dummy logger
		*c = Struct{}
		return c
	}
	intrinsics["sync/atomic.CompareAndSwapInt32"] = func(in *Interp, _ *frame, a []Value) Value {
		p := a[0].(*Value)
		if (*p).(int64) == a[1].(int64) {
			*p = a[2]
			return true
		}
		return false
	}
	intrinsics["sync/atomic.LoadInt32"] = func(in *Interp, _ *frame, a []Value) Value { return *(a[0].(*Value)) }
	intrinsics["sync/atomic.LoadUint32"] = intrinsics["sync/atomic.LoadInt32"]
	intrinsics["sync/atomic.StoreInt32"] = func(in *Interp, _ *frame, a []Value) Value { *(a[0].(*Value)) = a[1]; return nil }
	intrinsics["sync/atomic.StoreUint32"] = intrinsics["sync/atomic.StoreInt32"]
	intrinsics["sync/atomic.AddInt32"] = func(in *Interp, _ *frame, a []Value) Value {
		p := a[0].(*Value)
		*p = (*p).(int64) + a[1].(int64)
		return *p
	}
	// mutexes: real blocking semantics on the engine's scheduler (a Lock of a held mutex parks the
	// goroutine until an Unlock; if nobody can unlock, the scheduler reports the deadlock), plus the
	// nesting depth of critical sections, which tells synchronised writes from plain ones
	intrinsics["(*sync.Mutex).Lock"] = func(in *Interp, _ *frame, a []Value) Value {
		in.sched.mutexLock(a[0].(*Value), true)
		in.lockHeld++
		return nil
	}
	intrinsics["(*sync.RWMutex).Lock"] = intrinsics["(*sync.Mutex).Lock"]
	intrinsics["(*sync.RWMutex).RLock"] = func(in *Interp, _ *frame, a []Value) Value {
		in.sched.mutexLock(a[0].(*Value), false)
		in.lockHeld++
		return nil
	}
	intrinsics["(*sync.Mutex).Unlock"] = func(in *Interp, _ *frame, a []Value) Value {
		in.sched.mutexUnlock(a[0].(*Value), true)
		if in.lockHeld > 0 {
			in.lockHeld--
		}
		return nil
	}
	intrinsics["(*sync.RWMutex).Unlock"] = intrinsics["(*sync.Mutex).Unlock"]
	intrinsics["(*sync.RWMutex).RUnlock"] = func(in *Interp, _ *frame, a []Value) Value {
		in.sched.mutexUnlock(a[0].(*Value), false)
		if in.lockHeld > 0 {
			in.lockHeld--
		}
		return nil
	}
	intrinsics["(*sync.Mutex).TryLock"] = func(in *Interp, _ *frame, a []Value) Value {
		m := in.sched.mutexOf(a[0].(*Value))
		if m.writer || m.readers > 0 {
			return false
		}
		m.writer = true
		in.lockHeld++
		return true
	}
	// sync.Pool: modelled as a LIFO free list per pool (Get reuses the most recently Put object,
	// else calls New). Its internal state is synchronised by the runtime, so it is exempt from
	// the frozen-memory monitor; what flows through it between calls is carried faithfully.
	// Putting an object that is already in the pool is reported: two later Gets (possibly from
	// different goroutines) would then share one object.
	intrinsics["(*sync.Pool).Get"] = func(in *Interp, fr *frame, a []Value) Value {
		p := a[0].(*Value)
		if in.pools == nil {
			in.pools = map[*Value][]Value{}
		}
		if l := in.pools[p]; len(l) > 0 {
			x := l[len(l)-1]
			in.pools[p] = l[:len(l)-1]
			return x
		}
		st := (*p).(Struct)
		newFn := st[len(st)-1]
		switch f := newFn.(type) {
		case *ssa.Function:
			if f == nil {
				return Iface{}
			}
		case nil:
			return Iface{}
		}
		return in.call(fr, newFn, nil)
	}
	intrinsics["(*sync.Pool).Put"] = func(in *Interp, fr *frame, a []Value) Value {
		p := a[0].(*Value)
		x, _ := a[1].(Iface)
		if x.T == nil {
			return nil
		}
		if in.pools == nil {
			in.pools = map[*Value][]Value{}
		}
		if xp, ok := x.V.(*Value); ok {
			for _, y := range in.pools[p] {
				if yp, ok := y.(Iface).V.(*Value); ok && yp == xp {
					in.frozenWrite("second sync.Pool.Put of an object already in the pool (later Gets would share it)", "pool")
				}
			}
		}
		in.pools[p] = append(in.pools[p], x)
		return nil
	}
	// sync.Map: modelled as a map from interface keys to interface values held in a side table per
	// receiver. Its internal words are synchronised by the runtime, but the *content* is state: a
	// mutation of a sync.Map that lives in frozen memory is reported like a map update.
	syncMap := func(in *Interp, p *Value, write bool, what string) *MapV {
		if p == nil {
			in.rtPanic("invalid memory address or nil pointer dereference")
		}
		if in.syncMaps == nil {
			in.syncMaps = map[*Value]*MapV{}
		}
		m := in.syncMaps[p]
		if m == nil {
			m = newMap(types.NewInterfaceType(nil, nil))
			in.syncMaps[p] = m
		}
		if write && in.frozen != nil {
			if lbl, ok := in.frozen[p]; ok {
				in.frozenWrite(what, lbl)
			}
		}
		return m
	}
	intrinsics["(*sync.Map).Load"] = func(in *Interp, _ *frame, a []Value) Value {
		m := syncMap(in, a[0].(*Value), false, "")
		if v, ok := in.mapGet(m, a[1]); ok {
			return Tuple{v, true}
		}
		return Tuple{Iface{}, false}
	}
	intrinsics["(*sync.Map).Store"] = func(in *Interp, _ *frame, a []Value) Value {
		in.mapSet(syncMap(in, a[0].(*Value), true, "sync.Map.Store"), a[1], a[2])
		return nil
	}
	intrinsics["(*sync.Map).LoadOrStore"] = func(in *Interp, _ *frame, a []Value) Value {
		m := syncMap(in, a[0].(*Value), false, "")
		if v, ok := in.mapGet(m, a[1]); ok {
			return Tuple{v, true}
		}
		in.mapSet(syncMap(in, a[0].(*Value), true, "sync.Map.LoadOrStore"), a[1], a[2])
		return Tuple{a[2], false}
	}
	intrinsics["(*sync.Map).LoadAndDelete"] = func(in *Interp, _ *frame, a []Value) Value {
		m := syncMap(in, a[0].(*Value), false, "")
		if v, ok := in.mapGet(m, a[1]); ok {
			in.mapDelete(syncMap(in, a[0].(*Value), true, "sync.Map.LoadAndDelete"), a[1])
			return Tuple{v, true}
		}
		return Tuple{Iface{}, false}
	}
	intrinsics["(*sync.Map).Delete"] = func(in *Interp, _ *frame, a []Value) Value {
		m := syncMap(in, a[0].(*Value), false, "")
		if in.mapFind(m, a[1]) >= 0 {
			in.mapDelete(syncMap(in, a[0].(*Value), true, "sync.Map.Delete"), a[1])
		}
		return nil
	}
	intrinsics["(*sync.Map).Range"] = func(in *Interp, fr *frame, a []Value) Value {
		m := syncMap(in, a[0].(*Value), false, "")
		n := len(m.Keys)
		for i := 0; i < n; i++ {
			if m.Dead[i] {
				continue
			}
			r := in.call(fr, a[1], []Value{m.Keys[i], copyVal(m.Vals[i])})
			if b, ok := r.(bool); ok && !b {
				break
			}
			if t, ok := r.(*Term); ok && !in.branch(t) {
				break
			}
		}
		return nil
	}
	// sync/atomic.Value: the stored interface value lives in a side table per receiver; a Store
	// into an atomic.Value that lives in frozen memory is state kept across calls and is reported.
	atomVal := func(in *Interp, p *Value, write bool, what string) *Value {
		if p == nil {
			in.rtPanic("invalid memory address or nil pointer dereference")
		}
		if in.atomVals == nil {
			in.atomVals = map[*Value]*Value{}
		}
		c := in.atomVals[p]
		if c == nil {
			c = new(Value)
			*c = Iface{}
			in.atomVals[p] = c
		}
		if write && in.frozen != nil {
			if lbl, ok := in.frozen[p]; ok {
				in.frozenWrite(what, lbl)
			}
		}
		if in.raceOn {
			// atomic accesses synchronise: not reported as races
		}
		return c
	}
	intrinsics["(*sync/atomic.Value).Load"] = func(in *Interp, _ *frame, a []Value) Value {
		return *atomVal(in, a[0].(*Value), false, "")
	}
	intrinsics["(*sync/atomic.Value).Store"] = func(in *Interp, _ *frame, a []Value) Value {
		if v, ok := a[1].(Iface); ok && v.T == nil {
			in.rtPanic("sync/atomic: store of nil value into Value")
		}
		*atomVal(in, a[0].(*Value), true, "atomic.Value.Store") = a[1]
		return nil
	}
	intrinsics["(*sync/atomic.Value).Swap"] = func(in *Interp, _ *frame, a []Value) Value {
		c := atomVal(in, a[0].(*Value), true, "atomic.Value.Swap")
		old := *c
		*c = a[1]
		return old
	}
	// integer atomics (the engine runs one goroutine at a time, so plain accesses are atomic)
	for _, ty := range []string{"Int32", "Int64", "Uint32", "Uint64", "Uintptr"} {
		ty := ty
		intrinsics["sync/atomic.Load"+ty] = func(in *Interp, _ *frame, a []Value) Value { return *(a[0].(*Value)) }
		intrinsics["sync/atomic.Store"+ty] = func(in *Interp, _ *frame, a []Value) Value {
			in.store(a[0].(*Value), a[1])
			return nil
		}
		intrinsics["sync/atomic.Swap"+ty] = func(in *Interp, _ *frame, a []Value) Value {
			p := a[0].(*Value)
			old := *p
			in.store(p, a[1])
			return old
		}
	}
	for _, ty := range []string{"Int64", "Uint32", "Uint64"} {
		signed := ty[0] == 'I'
		w := 64
		if strings.HasSuffix(ty, "32") {
			w = 32
		}
		intrinsics["sync/atomic.Add"+ty] = func(in *Interp, _ *frame, a []Value) Value {
			p := a[0].(*Value)
			var r Value
			if signed {
				r = normInt(kInt, w, uint64((*p).(int64)+a[1].(int64)))
			} else {
				r = normInt(kUint, w, (*p).(uint64)+a[1].(uint64))
			}
			in.store(p, r)
			return r
		}
		intrinsics["sync/atomic.CompareAndSwap"+ty] = func(in *Interp, _ *frame, a []Value) Value {
			p := a[0].(*Value)
			if *p == a[1] {
				in.store(p, a[2])
				return true
			}
			return false
		}
	}
	// sync.WaitGroup: a counter and parked waiters in side tables; Done happens-before the return
	// of the Wait it releases.
	intrinsics["(*sync.WaitGroup).Add"] = func(in *Interp, _ *frame, a []Value) Value {
		in.sched.wgAdd(a[0].(*Value), int(a[1].(int64)))
		return nil
	}
	intrinsics["(*sync.WaitGroup).Done"] = func(in *Interp, _ *frame, a []Value) Value {
		in.sched.wgAdd(a[0].(*Value), -1)
		return nil
	}
	intrinsics["(*sync.WaitGroup).Wait"] = func(in *Interp, _ *frame, a []Value) Value {
		in.sched.wgWait(a[0].(*Value))
		return nil
	}
	// sort.Slice / sort.SliceStable (reflect-driven in the library): insertion sort driven by the
	// real less function; this is exactly what the library does for up to 12 elements, beyond that
	// the order of elements that compare equal may differ from the library's.
	sortSlice := func(in *Interp, fr *frame, a []Value) Value {
		x, ok := a[0].(Iface)
		if !ok {
			in.unsupported("sort.Slice of a non-interface value")
		}
		xs, ok := x.V.([]Value)
		if !ok {
			in.unsupported(fmt.Sprintf("sort.Slice of %T", x.V))
		}
		less := func(i, j int) bool {
			switch r := in.call(fr, a[1], []Value{int64(i), int64(j)}).(type) {
			case bool:
				return r
			case *Term:
				return in.branch(r)
			}
			return false
		}
		for i := 1; i < len(xs); i++ {
			for j := i; j > 0 && less(j, j-1); j-- {
				xs[j], xs[j-1] = xs[j-1], xs[j]
			}
		}
		return nil
	}
	intrinsics["sort.Slice"] = sortSlice
	intrinsics["sort.SliceStable"] = sortSlice
	intrinsics["(*sync.Once).Do"] = func(in *Interp, fr *frame, a []Value) Value {
		p := a[0].(*Value)
		st := (*p).(Struct)
		// field 0 is `done` (atomic.Uint32 struct or uint32 depending on version): use a side table
		if in.onceDone == nil {
			in.onceDone = map[*Value]bool{}
		}
		_ = st
		if !in.onceDone[p] {
			in.onceDone[p] = true
			in.lockHeld++
			in.call(fr, a[1], nil)
			in.lockHeld--
		}
		return nil
	}
	intrinsics["internal/stringslite.Clone"] = func(in *Interp, _ *frame, a []Value) Value { return a[0] }
	intrinsics["strings.Clone"] = intrinsics["internal/stringslite.Clone"]
	intrinsics["internal/abi.NoEscape"] = func(in *Interp, _ *frame, a []Value) Value { return a[0] }
	intrinsics["(*strings.Builder).copyCheck"] = nop
	intrinsics["(*strings.Builder).String"] = func(in *Interp, _ *frame, a []Value) Value {
		p := a[0].(*Value)
		if p == nil {
			in.rtPanic("invalid memory address or nil pointer dereference")
		}
		st := (*p).(Struct)
		buf, _ := st[len(st)-1].([]Value)
		return mkStr(buf)
	}
	// reflect.ValueOf(x).Pointer() (data.List/Map.Equals): identity token of the backing object.
	intrinsics["reflect.ValueOf"] = func(in *Interp, _ *frame, a []Value) Value { return ReflVal{a[0]} }
	intrinsics["(reflect.Value).Pointer"] = func(in *Interp, _ *frame, a []Value) Value {
		rv, ok := a[0].(ReflVal)
		if !ok {
			in.unsupported("reflect.Value.Pointer on an engine-foreign value")
		}
		v := rv.V
		if i, ok := v.(Iface); ok {
			v = i.V
		}
		if in.objIDs == nil {
			in.objIDs = map[interface{}]uint64{}
		}
		id := func(k interface{}) uint64 {
			if x, ok := in.objIDs[k]; ok {
				return x
			}
			x := uint64(0xc000000000 + 64*len(in.objIDs))
			in.objIDs[k] = x
			return x
		}
		switch v := v.(type) {
		case []Value:
			if v == nil {
				return uint64(0)
			}
			if cap(v) == 0 {
				return uint64(0x5a5a00) // runtime.zerobase: shared by all zero-capacity slices
			}
			full := v[:cap(v)]
			return id(&full[0]) + 8*uint64(cap(v)-cap(v[0:])) // slices of one array share the array
		case *MapV:
			if v == nil {
				return uint64(0)
			}
			return id(v)
		case *Value:
			if v == nil {
				return uint64(0)
			}
			return id(v)
		}
		in.unsupported(fmt.Sprintf("reflect.Value.Pointer of %T", v))
		return nil
	}
	// encoding/json.Marshal: reflection-driven; executed natively on a plain-Go copy of a concrete
	// Soy value (same JSON text: the data types marshal like their underlying kinds, Null and
	// Undefined as null); symbolic payloads are outside the engine.
	intrinsics["encoding/json.Marshal"] = func(in *Interp, fr *frame, a []Value) Value {
		h, ok := in.soyToHost(a[0])
		if !ok {
			// symbolic strings/bools inside Soy values: encoded through the validated model of
			// json's string encoding; object keys are concrete and sorted as encoding/json does
			if out, ok := in.jsonEncode(fr, a[0]); ok {
				return Tuple{out, Iface{}}
			}
			in.unsupported("encoding/json.Marshal of a symbolic or engine-foreign value")
		}
		b, err := json.Marshal(h)
		if err != nil {
			e := in.call(fr, in.lookupFunc("errors", "New"), []Value{err.Error()})
			return Tuple{[]Value(nil), e}
		}
		out := make([]Value, len(b))
		for i, c := range b {
			out[i] = uint64(c)
		}
		return Tuple{out, Iface{}}
	}
	intrinsics["reflect.TypeOf"] = func(in *Interp, _ *frame, a []Value) Value { return Iface{} }
	intrinsics["runtime/debug.Stack"] = func(in *Interp, _ *frame, a []Value) Value { return []Value(nil) }
	intrinsics["math/rand.Intn"] = func(in *Interp, _ *frame, a []Value) Value {
		n, ok := a[0].(int64)
		if !ok {
			in.unsupported("rand.Intn(symbolic)")
		}
		if n <= 0 {
			in.rtPanic("invalid argument to Intn")
		}
		t := in.newInput("e", 64)
		in.ex.Assume(And(bvCmp("bvsle", Const(64, 0), t), bvCmp("bvslt", t, Const(64, uint64(n)))))
		return t
	}
	intrinsics["math/rand.Int63n"] = intrinsics["math/rand.Intn"]
	intrinsics["math/rand.Int31n"] = intrinsics["math/rand.Intn"]
	intrinsics["math/rand.Int"] = func(in *Interp, _ *frame, a []Value) Value {
		t := in.newInput("e", 64)
		in.ex.Assume(bvCmp("bvsle", Const(64, 0), t))
		return t
	}

	// strconv.ParseFloat on symbolic text: nondeterministic stub (arbitrary float64, or an error);
	// the real function runs natively whenever the text is concrete.
	symIntrinsics["strconv.ParseFloat"] = func(in *Interp, fr *frame, a []Value) Value {
		if !anySym(a) {
			return nil
		}
		in.stubs["strconv.ParseFloat(symbolic text) = arbitrary (float64, nil) or (0, error)"] = true
		if in.ex.Choose(2, "env") == 0 {
			return Tuple{FSym{in.newInput("e", 64)}, Iface{}}
		}
		err := in.call(fr, in.lookupFunc("errors", "New"), []Value{"strconv.ParseFloat: parsing <sym>: invalid syntax"})
		return Tuple{float64(0), err}
	}

	symIntrinsics["strconv.FormatFloat"] = func(in *Interp, fr *frame, a []Value) Value {
		if anySym(a) {
			in.unsupported("strconv.FormatFloat of a symbolic value")
		}
		return nil
	}
	symIntrinsics["strconv.AppendFloat"] = symIntrinsics["strconv.FormatFloat"]

	// unicode predicates on symbolic runes: disjunction of the intervals of the host's real tables.
	for name, tab := range map[string]struct {
		rt   []*unicode.RangeTable
		pred func(rune) bool
	}{
		"unicode.IsLetter": {[]*unicode.RangeTable{unicode.Letter}, unicode.IsLetter},
		"unicode.IsDigit":  {[]*unicode.RangeTable{unicode.Digit}, unicode.IsDigit},
		"unicode.IsSpace":  {[]*unicode.RangeTable{unicode.White_Space}, unicode.IsSpace},
		"unicode.IsUpper":  {[]*unicode.RangeTable{unicode.Upper}, unicode.IsUpper},
		"unicode.IsLower":  {[]*unicode.RangeTable{unicode.Lower}, unicode.IsLower},
		"unicode.IsPrint":  {printTables, unicode.IsPrint},
	} {
		name, tab := name, tab
		symIntrinsics[name] = func(in *Interp, _ *frame, a []Value) Value {
			switch r := a[0].(type) {
			case int64:
				return tab.pred(rune(r))
			case *Term:
				return simpBool(inRangeTables(r, tab.rt))
			}
			panic(name)
		}
	}
}

var printTables = []*unicode.RangeTable{unicode.L, unicode.M, unicode.N, unicode.P, unicode.S, spaceOnly}

var spaceOnly = &unicode.RangeTable{R16: []unicode.Range16{{Lo: ' ', Hi: ' ', Stride: 1}}}

type rng struct{ lo, hi, stride uint32 }

// rangesContain is the concrete meaning of inRangeTables (used by the start-up self check).
func rangesContain(tabs []*unicode.RangeTable, r uint32) bool {
	for _, t := range tabs {
		for _, g := range tableRanges[t] {
			if r >= g.lo && r <= g.hi && (g.stride <= 1 || (r-g.lo)%g.stride == 0) {
				return true
			}
		}
	}
	return false
}

// selfCheckUnicode compares the interval encodings with the host's real predicates on every
// code point; a mismatch is an engine defect.
func selfCheckUnicode() error {
	checks := []struct {
		name string
		tabs []*unicode.RangeTable
		pred func(rune) bool
	}{
		{"IsLetter", []*unicode.RangeTable{unicode.Letter}, unicode.IsLetter},
		{"IsDigit", []*unicode.RangeTable{unicode.Digit}, unicode.IsDigit},
		{"IsSpace", []*unicode.RangeTable{unicode.White_Space}, unicode.IsSpace},
		{"IsUpper", []*unicode.RangeTable{unicode.Upper}, unicode.IsUpper},
		{"IsLower", []*unicode.RangeTable{unicode.Lower}, unicode.IsLower},
		{"IsPrint", printTables, unicode.IsPrint},
	}
	for _, c := range checks {
		for r := uint32(0); r <= 0x110000; r++ {
			if rangesContain(c.tabs, r) != c.pred(rune(r)) {
				return fmt.Errorf("unicode.%s interval encoding disagrees with the host at U+%04X", c.name, r)
			}
		}
	}
	return nil
}

var tableRanges = map[*unicode.RangeTable][]rng{}

func initUnicodeTables() {
	for _, t := range []*unicode.RangeTable{unicode.Letter, unicode.Digit, unicode.White_Space, unicode.Upper, unicode.Lower,
		unicode.L, unicode.M, unicode.N, unicode.P, unicode.S, spaceOnly} {
		var rs []rng
		add := func(lo, hi, stride uint32) {
			if stride == 1 && len(rs) > 0 && rs[len(rs)-1].stride == 1 && rs[len(rs)-1].hi+1 == lo {
				rs[len(rs)-1].hi = hi
				return
			}
			if lo == hi {
				stride = 1
			}
			rs = append(rs, rng{lo, hi, stride})
		}
		for _, r := range t.R16 {
			add(uint32(r.Lo), uint32(r.Hi), uint32(r.Stride))
		}
		for _, r := range t.R32 {
			add(r.Lo, r.Hi, r.Stride)
		}
		tableRanges[t] = rs
	}
}

// inRangeTables builds "r is in one of the tables" for a 32-bit signed rune term.
func inRangeTables(r *Term, tabs []*unicode.RangeTable) *Term {
	w := r.S.W
	mx := termMax(r)
	res := BoolConst(false)
	for _, t := range tabs {
		for _, g := range tableRanges[t] {
			if uint64(g.lo) > mx {
				break
			}
			var c *Term
			if g.lo == g.hi {
				c = Eq(r, Const(w, uint64(g.lo)))
			} else {
				c = And(bvCmp("bvule", Const(w, uint64(g.lo)), r), bvCmp("bvule", r, Const(w, uint64(g.hi))))
				if g.stride > 1 {
					c = And(c, Eq(bvBin("bvurem", bvBin("bvsub", r, Const(w, uint64(g.lo))), Const(w, uint64(g.stride))), Const(w, 0)))
				}
			}
			res = Or(res, c)
		}
	}
	return res
}

// ---- fmt rendering ----

// fmtArg renders one operand to a host value usable by the real fmt, or a symbolic string.
func (in *Interp) fmtArg(fr *frame, v Value, verb byte) (host interface{}, sym Value) {
	i, ok := v.(Iface)
	if !ok {
		return fmt.Sprintf("<%T>", v), nil
	}
	if i.T == nil {
		return nil, nil
	}
	if verb == 'T' {
		return typeName(i.T), nil
	}
	k, _ := basicOf(i.T)
	intVerb := strings.IndexByte("dxXcUbo", verb) >= 0
	if !(intVerb && (k == kInt || k == kUint)) {
		if s := in.tryErrorStringV(fr, i); s != nil {
			if hs, ok := s.(string); ok {
				return hs, nil
			}
			return nil, s
		}
	}
	switch x := i.V.(type) {
	case string:
		return x, nil
	case *SymStr:
		return nil, x
	case bool:
		return x, nil
	case int64:
		if b, ok := i.T.Underlying().(*types.Basic); ok && b.Kind() == types.Int32 && verb == 'q' {
			return rune(x), nil
		}
		return x, nil
	case uint64:
		if b, ok := i.T.Underlying().(*types.Basic); ok && b.Kind() == types.Uint8 {
			return uint8(x), nil
		}
		return x, nil
	case float64:
		return x, nil
	case *Term:
		if x.S.K == SBool {
			return in.branch(x), nil
		}
		// formatting is not the subject: a symbolic number is rendered as a placeholder instead
		// of forking over its values (only error/log texts are affected)
		return "<sym>", nil
	case FSym:
		in.unsupported("fmt of symbolic float")
	case []Value:
		if sl, ok := i.T.Underlying().(*types.Slice); ok {
			ek, _ := basicOf(sl.Elem())
			switch ek {
			case kString:
				out := make([]string, len(x))
				for j, e := range x {
					s, ok := e.(string)
					if !ok {
						s = "<sym>"
					}
					out[j] = s
				}
				return out, nil
			case kUint:
				s := mkStr(x)
				if hs, ok := s.(string); ok {
					return []byte(hs), nil
				}
				return nil, s
			case kInt:
				out := make([]int64, len(x))
				for j, e := range x {
					out[j], _ = e.(int64)
				}
				return out, nil
			}
			out := make([]interface{}, len(x))
			for j, e := range x {
				h, s := in.fmtArg(fr, Iface{sl.Elem(), e}, 'v')
				if ei, ok := e.(Iface); ok {
					h, s = in.fmtArg(fr, ei, 'v')
				}
				if s != nil {
					h = "<sym>"
				}
				out[j] = h
			}
			return out, nil
		}
	case *Value:
		if x == nil {
			return "<nil>", nil
		}
		return "&" + typeName(i.T), nil
	}
	return "<" + typeName(i.T) + ">", nil
}

func typeName(t types.Type) string {
	return types.TypeString(t, func(p *types.Package) string { return p.Name() })
}

// tryErrorStringV returns the result of Error() or String() when the dynamic type has one.
func (in *Interp) tryErrorStringV(fr *frame, i Iface) Value {
	for _, m := range []string{"Error", "String"} {
		f := in.findMethod(i.T, m)
		if f == nil {
			continue
		}
		sig := f.Signature
		if sig.Params().Len() != 0 || sig.Results().Len() != 1 {
			continue
		}
		if k, _ := basicOf(sig.Results().At(0).Type()); k != kString {
			continue
		}
		if p, ok := i.V.(*Value); ok && p == nil {
			return "<nil>"
		}
		return in.callForFmt(fr, f, i.V)
	}
	return nil
}

func (in *Interp) tryErrorString(i Iface) string {
	defer func() { recover() }()
	if s, ok := in.tryErrorStringV(nil, i).(string); ok {
		return s
	}
	return ""
}

func (in *Interp) sprintf(fr *frame, format Value, args []Value) Value {
	// the format may hold symbolic bytes (text spliced into a format string): a symbolic byte is
	// either a literal (copied through) or, on a separate path, a '%'; the bytes of a conversion
	// specification are concretised.
	fb := strBytes(format)
	isPct := func(i int) bool {
		switch b := fb[i].(type) {
		case uint64:
			return b == '%'
		case *Term:
			return in.branch(Eq(b, Const(8, '%')))
		}
		return false
	}
	conc := func(i int) byte {
		switch b := fb[i].(type) {
		case uint64:
			return byte(b)
		case *Term:
			return byte(in.concretize(b, "byte of a format specification"))
		}
		return 0
	}
	var out []Value
	emit := func(s string) { out = append(out, strBytes(s)...) }
	ai := 0
	for i := 0; i < len(fb); {
		if !isPct(i) {
			out = append(out, fb[i])
			i++
			continue
		}
		j := i + 1
		spec := []byte{'%'}
		for j < len(fb) {
			c := conc(j)
			if strings.IndexByte("+-# 0123456789.", c) < 0 {
				break
			}
			spec = append(spec, c)
			j++
		}
		if j >= len(fb) {
			// "%" (and flags) at the end of the format
			emit("%!(NOVERB)")
			break
		}
		verb := conc(j)
		if verb >= 0x80 {
			in.unsupported("non-ASCII verb in a format string")
		}
		spec = append(spec, verb)
		i = j + 1
		if verb == '%' {
			emit("%")
			continue
		}
		if ai >= len(args) {
			emit("%!" + string(verb) + "(MISSING)")
			continue
		}
		if hx := in.symHexArg(args[ai], string(spec), verb); hx != nil {
			ai++
			out = append(out, hx...)
			continue
		}
		h, sym := in.fmtArg(fr, args[ai], verb)
		ai++
		if sym != nil {
			if (verb == 's' || verb == 'v') && string(spec) == "%"+string(verb) {
				out = append(out, strBytes(sym)...)
			} else if verb == 'q' {
				emit("\"")
				out = append(out, strBytes(sym)...) // approximation: no escaping of symbolic text
				emit("\"")
			} else {
				emit("<sym>")
			}
			continue
		}
		if verb == 'T' {
			emit(fmt.Sprintf(strings.Replace(string(spec), "T", "s", 1), h))
			continue
		}
		emit(fmt.Sprintf(string(spec), h))
	}
	if ai < len(args) {
		emit("%!(EXTRA)")
	}
	return mkStr(out)
}

// symHexArg renders a symbolic integer under %x/%X (optionally zero padded: %04X) exactly: the
// number of digits is decided by branching on the magnitude, each digit is a term. Returns nil
// when the operand or the spec is not of that shape.
func (in *Interp) symHexArg(v Value, spec string, verb byte) []Value {
	if verb != 'x' && verb != 'X' {
		return nil
	}
	i, ok := v.(Iface)
	if !ok || i.T == nil {
		return nil
	}
	x, ok := i.V.(*Term)
	if !ok || x.S.K != SBV {
		return nil
	}
	k, _ := basicOf(i.T)
	if k != kInt && k != kUint {
		return nil
	}
	width := 0
	mid := spec[1 : len(spec)-1]
	if mid != "" {
		if mid[0] != '0' {
			return nil
		}
		for _, c := range mid[1:] {
			if c < '0' || c > '9' {
				return nil
			}
			width = width*10 + int(c-'0')
		}
	}
	w := x.S.W
	if k == kInt && in.branch(bvCmp("bvslt", x, Const(w, 0))) {
		in.unsupported("fmt %x of a negative symbolic integer")
	}
	nd := (w + 3) / 4
	for nd > 1 {
		lo := 4 * (nd - 1)
		if !in.branch(Not(Eq(bvBin("bvlshr", x, Const(w, uint64(lo))), Const(w, 0)))) {
			nd--
			continue
		}
		break
	}
	var out []Value
	for p := nd; p < width; p++ {
		out = append(out, uint64('0'))
	}
	al := uint64('a')
	if verb == 'X' {
		al = 'A'
	}
	for d := nd - 1; d >= 0; d-- {
		nib := Extract(bvBin("bvlshr", x, Const(w, uint64(4*d))), 3, 0)
		n8 := ZExt(nib, 8)
		dig := Ite(bvCmp("bvult", n8, Const(8, 10)), bvBin("bvadd", n8, Const(8, '0')), bvBin("bvadd", n8, Const(8, al-10)))
		if dig.IsConst() {
			out = append(out, dig.C)
		} else {
			out = append(out, dig)
		}
	}
	return out
}

func (in *Interp) sprint(fr *frame, args []Value, ln bool) Value {
	var out []Value
	prevString := true
	for n, a := range args {
		h, sym := in.fmtArg(fr, a, 'v')
		_, isStr := h.(string)
		if sym != nil {
			isStr = true
		}
		if ai, ok := a.(Iface); ok && ai.T != nil {
			k, _ := basicOf(ai.T)
			isStr = k == kString
		}
		if n > 0 && (ln || (!isStr && !prevString)) {
			out = append(out, uint64(' '))
		}
		if sym != nil {
			out = append(out, strBytes(sym)...)
		} else {
			out = append(out, strBytes(fmt.Sprint(h))...)
		}
		prevString = isStr
	}
	if ln {
		out = append(out, uint64('\n'))
	}
	return mkStr(out)
}

// findMethod returns the exported method of T with the given name, or nil.
func (in *Interp) findMethod(T types.Type, name string) *ssa.Function {
	sel := in.prog.MethodSets.MethodSet(T).Lookup(nil, name)
	if sel == nil {
		return nil
	}
	return in.prog.MethodValue(sel)
}

// callForFmt calls a String()/Error() method for the purpose of formatting a message; when the
// method cannot be executed on symbolic data (number formatting) the operand is rendered as a
// placeholder: message texts are not the subject of any check that feeds them symbolic numbers.
func (in *Interp) callForFmt(fr *frame, f *ssa.Function, recv Value) (res Value) {
	depth, stack := in.depth, len(in.stack)
	defer func() {
		if r := recover(); r != nil {
			if a, ok := r.(abortPath); ok && a.kind == "unsupported" {
				in.depth, in.stack = depth, in.stack[:stack]
				res = "<sym>"
				return
			}
			panic(r)
		}
	}()
	return in.call(fr, f, []Value{recv})
}

// soyToHost converts a concrete engine value of one of the soy data types (or a basic Go value)
// into plain host Go data.
func (in *Interp) soyToHost(v Value) (interface{}, bool) {
	switch x := v.(type) {
	case Iface:
		if x.T == nil {
			return nil, true
		}
		switch typeName(x.T) {
		case "data.Null", "data.Undefined":
			return nil, true
		}
		return in.soyToHost(x.V)
	case string:
		return x, true
	case bool:
		return x, true
	case int64:
		return x, true
	case uint64:
		return x, true
	case float64:
		return x, true
	case []Value:
		out := make([]interface{}, len(x))
		for i, e := range x {
			h, ok := in.soyToHost(e)
			if !ok {
				return nil, false
			}
			out[i] = h
		}
		return out, true
	case *MapV:
		out := map[string]interface{}{}
		if x == nil {
			return nil, true
		}
		for i, k := range x.Keys {
			if x.Dead[i] {
				continue
			}
			ks, ok := k.(string)
			if !ok {
				return nil, false
			}
			h, ok := in.soyToHost(x.Vals[i])
			if !ok {
				return nil, false
			}
			out[ks] = h
		}
		return out, true
	case Struct:
		if len(x) == 0 {
			return nil, true // data.Null{} / data.Undefined{}
		}
	}
	return nil, false
}

func (in *Interp) jsonEncode(fr *frame, v Value) ([]Value, bool) {
	lit := func(s string) []Value { return append([]Value{}, strBytes(s)...) }
	switch x := v.(type) {
	case Iface:
		if x.T == nil {
			return lit("null"), true
		}
		switch typeName(x.T) {
		case "data.Null", "data.Undefined":
			return lit("null"), true
		}
		return in.jsonEncode(fr, x.V)
	case string, *SymStr:
		r := in.call(fr, in.modelFunc("verifModel_json_quote"), []Value{x})
		return append([]Value{}, strBytes(r)...), true
	case bool:
		if x {
			return lit("true"), true
		}
		return lit("false"), true
	case *Term:
		if x.S.K == SBool {
			if in.branch(x) {
				return lit("true"), true
			}
			return lit("false"), true
		}
		c := in.concretize(x, "json number")
		return lit(fmt.Sprint(sext(c, x.S.W))), true
	case int64:
		return lit(fmt.Sprint(x)), true
	case float64:
		b, err := json.Marshal(x)
		if err != nil {
			return nil, false
		}
		return lit(string(b)), true
	case []Value:
		out := lit("[")
		for i, e := range x {
			if i > 0 {
				out = append(out, uint64(','))
			}
			b, ok := in.jsonEncode(fr, e)
			if !ok {
				return nil, false
			}
			out = append(out, b...)
		}
		return append(out, uint64(']')), true
	case *MapV:
		if x == nil {
			return lit("null"), true
		}
		var keys []string
		vals := map[string]Value{}
		for i, k := range x.Keys {
			if x.Dead[i] {
				continue
			}
			ks, ok := k.(string)
			if !ok {
				return nil, false
			}
			keys = append(keys, ks)
			vals[ks] = x.Vals[i]
		}
		sort.Strings(keys)
		out := lit("{")
		for i, k := range keys {
			if i > 0 {
				out = append(out, uint64(','))
			}
			kb, _ := json.Marshal(k)
			out = append(out, strBytes(string(kb))...)
			out = append(out, uint64(':'))
			b, ok := in.jsonEncode(fr, vals[k])
			if !ok {
				return nil, false
			}
			out = append(out, b...)
		}
		return append(out, uint64('}')), true
	case Struct:
		if len(x) == 0 {
			return lit("null"), true
		}
	}
	return nil, false
}
