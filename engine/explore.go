package main

import (
	"encoding/hex"
	"fmt"
	"sort"
	"strings"
	"sync"
	"sync/atomic"
	"time"
)

type Decision struct {
	kind byte // 'B' branch, 'C' concretize
	val  uint64
	cond *Term
}

type WorkItem struct {
	argIdx int
	prefix []Decision
	extra  []*Term
	pc     []*Term
}

type InputVal struct {
	Name string `json:"name"`
	Kind string `json:"kind"`
	W    int    `json:"w"`
	Val  uint64 `json:"val"`
}

type Obs struct {
	Name string `json:"name"`
	Val  string `json:"val"`
}

type Violation struct {
	Args   string     `json:"args"`
	Msg    string     `json:"msg"`
	Kind   string     `json:"kind"` // assert, panic, steps, deadlock, frozen-write
	Inputs []InputVal `json:"inputs"`
	Obs    []Obs      `json:"obs,omitempty"`
	Count  int        `json:"count"`
}

type Witness struct {
	Args   string     `json:"args"`
	Inputs []InputVal `json:"inputs"`
	Obs    []Obs      `json:"obs"`
	Steps  int        `json:"steps"`
}

// Shared is the state shared by all workers exploring one harness.
type Shared struct {
	mu     sync.Mutex
	cond   *sync.Cond
	work   []WorkItem
	active int
	stop   bool

	Paths, Infeasible, Unsupported, Aborted, Inconclusive int
	Decisions                                             int
	Steps                                                 int64
	MaxSteps                                              int
	UnsupportedReasons                                    map[string]int
	InconclusiveReasons                                   map[string]int
	Violations                                            []*Violation
	violIdx                                               map[string]*Violation
	Leaks                                                 int
	Witnesses                                             []Witness
	witnessCap                                            int
	witnessEvery                                          int
	Funcs                                                 map[string]bool
	Completed                                             map[string]int
	Stubs                                                 map[string]bool
	MapSites                                              map[string]int
	Queries                                               int
	SolverTime                                            time.Duration
	domDecided                                            atomic.Int64
	maxPaths                                              int
	deadline                                              time.Time
	TimedOut                                              bool
}

func newShared() *Shared {
	s := &Shared{UnsupportedReasons: map[string]int{}, InconclusiveReasons: map[string]int{}, violIdx: map[string]*Violation{},
		Funcs: map[string]bool{}, MapSites: map[string]int{}, Completed: map[string]int{}, Stubs: map[string]bool{}}
	s.cond = sync.NewCond(&s.mu)
	return s
}

// pop blocks until a work item is available or exploration is finished.
func (s *Shared) pop() (WorkItem, bool) {
	s.mu.Lock()
	defer s.mu.Unlock()
	for {
		if s.stop {
			return WorkItem{}, false
		}
		if !s.deadline.IsZero() && time.Now().After(s.deadline) {
			s.TimedOut = true
			s.stop = true
			s.cond.Broadcast()
			return WorkItem{}, false
		}
		if s.maxPaths > 0 && s.Paths >= s.maxPaths {
			s.stop = true
			s.cond.Broadcast()
			return WorkItem{}, false
		}
		if n := len(s.work); n > 0 {
			it := s.work[n-1]
			s.work = s.work[:n-1]
			s.active++
			return it, true
		}
		if s.active == 0 {
			s.stop = true
			s.cond.Broadcast()
			return WorkItem{}, false
		}
		s.cond.Wait()
	}
}

func (s *Shared) done() {
	s.mu.Lock()
	s.active--
	s.cond.Broadcast()
	s.mu.Unlock()
}

func (s *Shared) push(it WorkItem) {
	s.mu.Lock()
	s.work = append(s.work, it)
	s.cond.Signal()
	s.mu.Unlock()
}

// Explorer is the per-worker path state.
type Explorer struct {
	argIdx         int
	argStr         string
	sh             *Shared
	solver         *Solver
	nondetMapOrder bool
	in             *Interp

	prefix       []Decision
	pos          int
	extra        []*Term
	extraApplied bool
	pc           []*Term
	model        map[string]uint64
	trace        []Decision
	memo         map[*Term]uint64
	known        map[*Term]bool
	doms         map[*Term]*dom
	maxFan       int
	obs          []obsEntry
}

type obsEntry struct {
	name string
	val  Value
}

func (ex *Explorer) eval(t *Term) uint64 {
	return evalTerm(t, ex.model, ex.memo)
}

func (ex *Explorer) setModel(m map[string]uint64) {
	ex.model = m
	ex.memo = map[*Term]uint64{}
}

// fullPC is the path condition plus exclusions pending for the next concretization.
func (ex *Explorer) fullPC(more ...*Term) []*Term {
	r := cp(ex.pc, more...)
	if !ex.extraApplied {
		r = append(r, ex.extra...)
	}
	return r
}

func cp(ts []*Term, more ...*Term) []*Term {
	r := make([]*Term, 0, len(ts)+len(more))
	r = append(r, ts...)
	return append(r, more...)
}

func cpd(ds []Decision, more ...Decision) []Decision {
	r := make([]Decision, 0, len(ds)+len(more))
	r = append(r, ds...)
	return append(r, more...)
}

// ---- per-variable value domains (cheap pre-solver filter) ----
//
// For every 8-bit (or boolean) input variable the path keeps the set of values allowed by the
// single-variable conditions met so far. A condition over one such variable that is constant
// over the whole set is decided without a fork and without a solver query: the other outcome
// is unsatisfiable under the path condition. This is an exact shortcut, not an approximation.

type dom [4]uint64

func (d *dom) has(v uint64) bool { return d[v>>6]&(1<<(v&63)) != 0 }

func (ex *Explorer) domOf(v *Term) *dom {
	if d, ok := ex.doms[v]; ok {
		return d
	}
	d := &dom{}
	n := uint64(256)
	if v.S.K == SBool {
		n = 2
	}
	for i := uint64(0); i < n; i++ {
		d[i>>6] |= 1 << (i & 63)
	}
	ex.doms[v] = d
	return d
}

func domVar(c *Term) *Term {
	if c.fvN != 1 || c.size > 4000 {
		return nil
	}
	v := c.fv
	if v.S.K == SBool || (v.S.K == SBV && v.S.W == 8) {
		return v
	}
	return nil
}

var ttCache sync.Map // *Term -> *dom: the values of the single variable for which the term is true

func truthTable(c *Term, v *Term) *dom {
	if t, ok := ttCache.Load(c); ok {
		return t.(*dom)
	}
	n := uint64(256)
	if v.S.K == SBool {
		n = 2
	}
	var t dom
	m := map[string]uint64{}
	for i := uint64(0); i < n; i++ {
		m[v.Name] = i
		if evalTerm(c, m, map[*Term]uint64{}) == 1 {
			t[i>>6] |= 1 << (i & 63)
		}
	}
	ttCache.Store(c, &t)
	return &t
}

// domEval evaluates c for every allowed value of its single variable.
// Returns (canTrue, canFalse) and the refined domains.
func (ex *Explorer) domEval(c *Term, v *Term) (canT, canF bool, dt, df dom) {
	d := ex.domOf(v)
	t := truthTable(c, v)
	for i := 0; i < 4; i++ {
		dt[i] = d[i] & t[i]
		df[i] = d[i] &^ t[i]
		if dt[i] != 0 {
			canT = true
		}
		if df[i] != 0 {
			canF = true
		}
	}
	return
}

func (ex *Explorer) Branch(c *Term) bool {
	// a condition already decided on this path (syntactically) needs no fork
	if v, ok := ex.known[c]; ok {
		return v
	}
	if v := domVar(c); v != nil {
		canT, canF, dt, df := ex.domEval(c, v)
		if canT != canF {
			ex.known[c] = canT
			ex.known[Not(c)] = !canT
			ex.sh.domDecided.Add(1)
			return canT
		}
		if !canT && !canF {
			panic(abortPath{kind: "infeasible", reason: "empty domain"})
		}
		r := ex.branch1(c)
		if r {
			*ex.doms[v] = dt
		} else {
			*ex.doms[v] = df
		}
		ex.known[c] = r
		ex.known[Not(c)] = !r
		return r
	}
	r := ex.branch1(c)
	ex.known[c] = r
	ex.known[Not(c)] = !r
	return r
}

const maxDecisions = 20000

func (ex *Explorer) branch1(c *Term) bool {
	if len(ex.trace) > maxDecisions {
		panic(abortPath{kind: "steps", reason: fmt.Sprintf("decision bound %d exceeded (unbounded symbolic loop?)", maxDecisions)})
	}
	if ex.pos < len(ex.prefix) {
		d := ex.prefix[ex.pos]
		if d.kind != 'B' || d.cond != c {
			panic(fmt.Sprintf("engine nondeterminism: replay mismatch at decision %d", ex.pos))
		}
		ex.pos++
		ex.trace = append(ex.trace, d)
		if d.val == 1 {
			ex.pc = append(ex.pc, c)
		} else {
			ex.pc = append(ex.pc, Not(c))
		}
		return d.val == 1
	}
	v := ex.eval(c)
	var taken, other *Term
	if v == 1 {
		taken, other = c, Not(c)
	} else {
		taken, other = Not(c), c
	}
	ex.sh.push(WorkItem{
		argIdx: ex.argIdx,
		prefix: cpd(ex.trace, Decision{'B', 1 - v, c}),
		pc:     cp(ex.pc, other),
	})
	ex.trace = append(ex.trace, Decision{'B', v, c})
	ex.pc = append(ex.pc, taken)
	ex.pos++
	return v == 1
}

func (ex *Explorer) Concretize(t *Term, why string) uint64 {
	if ex.pos < len(ex.prefix) {
		d := ex.prefix[ex.pos]
		if d.kind != 'C' || d.cond != t {
			panic(fmt.Sprintf("engine nondeterminism: replay mismatch at decision %d (concretize)", ex.pos))
		}
		ex.pos++
		ex.trace = append(ex.trace, d)
		ex.pc = append(ex.pc, Eq(t, Const(t.S.W, d.val)))
		return d.val
	}
	var cur []*Term
	if !ex.extraApplied {
		cur = ex.extra
		ex.extraApplied = true
	}
	v := ex.eval(t)
	ne := Not(Eq(t, Const(t.S.W, v)))
	if len(cur)+1 > ex.maxFan {
		panic(abortPath{kind: "unsupported", reason: "concretization fan-out exceeded: " + why})
	}
	ex.sh.push(WorkItem{
		argIdx: ex.argIdx,
		prefix: cpd(ex.trace),
		extra:  cp(cur, ne),
		pc:     cp(ex.pc),
	})
	d := Decision{'C', v, t}
	ex.trace = append(ex.trace, d)
	ex.pc = append(ex.pc, Eq(t, Const(t.S.W, v)))
	ex.pos++
	return v
}

func (ex *Explorer) Assume(c *Term) {
	if c.IsTrue() {
		return
	}
	if c.IsFalse() {
		panic(abortPath{kind: "infeasible", reason: "assume false"})
	}
	if v := domVar(c); v != nil {
		canT, canF, dt, _ := ex.domEval(c, v)
		if !canT {
			panic(abortPath{kind: "infeasible", reason: "assumption unsatisfiable"})
		}
		if !canF {
			return // implied by the path condition
		}
		*ex.doms[v] = dt
	}
	ex.pc = append(ex.pc, c)
	ex.known[c] = true
	ex.known[Not(c)] = false
	if ex.pos < len(ex.prefix) {
		return // model is consistent with recorded path by construction
	}
	if ex.eval(c) == 1 {
		return
	}
	sat, m, err := ex.solver.Check(ex.fullPC())
	if err != nil {
		panic(abortPath{kind: "inconclusive", reason: "solver: " + err.Error()})
	}
	if !sat {
		panic(abortPath{kind: "infeasible", reason: "assumption unsatisfiable"})
	}
	ex.setModel(m)
}

func (ex *Explorer) Assert(c *Term, msg string) {
	if c.IsTrue() {
		return
	}
	if v, ok := ex.known[c]; ok && v {
		return
	}
	if v := domVar(c); v != nil {
		if _, canF, _, _ := ex.domEval(c, v); !canF {
			return
		}
	}
	if ex.pos < len(ex.prefix) {
		// inside the replayed prefix the path condition is identical to the parent's, which
		// already discharged this assertion
		ex.Assume(c)
		return
	}
	sat, m, err := ex.solver.CheckAssert(ex.fullPC(Not(c)))
	if err != nil {
		ex.sh.mu.Lock()
		ex.sh.Inconclusive++
		ex.sh.InconclusiveReasons["assert "+msg+": "+err.Error()]++
		ex.sh.mu.Unlock()
	} else if sat {
		ex.violation("assert", msg, m)
	}
	ex.Assume(c)
}

func (ex *Explorer) inputs(m map[string]uint64) []InputVal {
	var r []InputVal
	for _, te := range ex.in.tape {
		if te.conc {
			r = append(r, InputVal{te.Name, te.Kind, te.W, te.val})
		} else {
			r = append(r, InputVal{te.Name, te.Kind, te.W, m[te.Name] & mask(te.W)})
		}
	}
	return r
}

func (ex *Explorer) observations(m map[string]uint64) []Obs {
	var r []Obs
	memo := map[*Term]uint64{}
	for _, o := range ex.obs {
		r = append(r, Obs{hex.EncodeToString([]byte(o.name)), hex.EncodeToString([]byte(concString(o.val, m, memo)))})
	}
	return r
}

func (ex *Explorer) violation(kind, msg string, m map[string]uint64) {
	sh := ex.sh
	sh.mu.Lock()
	defer sh.mu.Unlock()
	key := ex.argStr + "|" + kind + "|" + msg
	if v, ok := sh.violIdx[key]; ok {
		v.Count++
		return
	}
	v := &Violation{Args: ex.argStr, Msg: msg, Kind: kind, Inputs: ex.inputs(m), Obs: ex.observations(m), Count: 1}
	sh.violIdx[key] = v
	sh.Violations = append(sh.Violations, v)
}

func (ex *Explorer) Choose(n int, why string) int {
	if n <= 1 {
		return 0
	}
	kind := "c"
	if why == "map-order" {
		kind = "m"
	} else if why == "env" {
		kind = "e"
	} else if strings.HasPrefix(why, "select: run-queue") {
		kind = "q" // run-queue discipline (verifSchedChoice): a passing run does not depend on it
	} else if strings.HasPrefix(why, "select") {
		kind = "s" // scheduling decision (which ready select case fires): not reproducible by a tape
	}
	t := ex.in.newInput(kind, 8)
	ex.Assume(bvCmp("bvult", t, Const(8, uint64(n))))
	return int(ex.Concretize(t, why))
}

func (in *Interp) newInput(kind string, w int) *Term {
	key := fmt.Sprintf("%s%d", kind, w)
	n := in.nInputs[key]
	in.nInputs[key] = n + 1
	name := fmt.Sprintf("%s_%d", key, n)
	var s Sort
	if kind == "p" {
		s = BoolSort
		w = 1
	} else {
		s = BV(w)
	}
	in.tape = append(in.tape, tapeEntry{Kind: kind, Name: name, W: w})
	return Var(name, s)
}

func (sh *Shared) reasons(m map[string]int) []string {
	var r []string
	for k, v := range m {
		r = append(r, fmt.Sprintf("%dx %s", v, k))
	}
	sort.Strings(r)
	return r
}

func (sh *Shared) stubList() []string {
	var r []string
	for k := range sh.Stubs {
		r = append(r, k)
	}
	sort.Strings(r)
	return r
}
