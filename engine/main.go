// gosym: bounded symbolic execution of Go code from its go/ssa form, deciding harness
// assertions with an SMT solver. See /verif/DESIGN.md §2.
package main

import (
	"encoding/json"
	"flag"
	"fmt"
	"go/types"
	"os"
	"path/filepath"
	"runtime/debug"
	"runtime/pprof"
	"sort"
	"strconv"
	"strings"
	"sync"
	"time"

	"golang.org/x/tools/go/packages"
	"golang.org/x/tools/go/ssa"
	"golang.org/x/tools/go/ssa/ssautil"
)

type Config struct {
	maxSteps   int
	maxDepth   int
	initPkgs   map[string]bool
	mapOrder   string // "", "all" or a site substring (file:line)
	freeze     bool
	argsets    [][]Value
	argstrs    []string
	rtErr      types.Type
	mainPkg    *ssa.Package
	prog       *ssa.Program
	hfn        *ssa.Function
	soyPrefix  string
	traceCalls bool
}

func main() {
	dir := flag.String("dir", "/repo", "module dir")
	pkgPat := flag.String("pkg", "./parse", "package pattern")
	harness := flag.String("harness", "", "harness function name")
	hargs := flag.String("args", "", "comma separated int (or quoted string) arguments of the harness")
	overlayDir := flag.String("overlay", "", "dir with files to overlay into the package dir")
	maxSteps := flag.Int("maxsteps", 2000000, "step bound per path")
	maxPaths := flag.Int("maxpaths", 0, "path bound (0 = none)")
	mapOrder := flag.String("maporder", "", "nondeterministic map iteration order: all | <file:line substring>")
	initPkgs := flag.String("init", "", "comma separated package paths whose init runs")
	z3bin := flag.String("solver", "z3", "solver binary (z3, z3-new, cvc5)")
	smtlog := flag.String("smtlog", "", "log smt of worker 0 to file")
	workers := flag.Int("workers", 1, "parallel workers")
	outFile := flag.String("out", "", "write result JSON to file (default stdout)")
	witnessCap := flag.Int("witnesses", 40, "max passing-path witnesses recorded")
	timeout := flag.Duration("timeout", 0, "wall clock budget for exploration (0 = none)")
	maxFan := flag.Int("maxfan", 64, "concretization fan-out cap")
	trace := flag.Bool("trace", false, "trace calls (debug)")
	flag.IntVar(&QueryTimeoutMs, "qtimeout", 10000, "per-query solver timeout ms")
	cpuprof := flag.String("cpuprofile", "", "write cpu profile")
	selftest := flag.Bool("selftest", false, "run engine self checks and exit")
	listG := flag.String("listglobals", "", "print the package-level variables declared in the given package directory and exit")
	flag.Parse()
	if *listG != "" {
		if err := listGlobals(*listG); err != nil {
			fmt.Fprintln(os.Stderr, err)
			os.Exit(2)
		}
		return
	}
	if *selftest {
		initUnicodeTables()
		if err := selfCheckUnicode(); err != nil {
			fmt.Fprintln(os.Stderr, err)
			os.Exit(1)
		}
		if err := selfCheckRegexp(); err != nil {
			fmt.Fprintln(os.Stderr, err)
			os.Exit(1)
		}
		fmt.Println("selftest ok")
		return
	}

	if *cpuprof != "" {
		f, _ := os.Create(*cpuprof)
		pprof.StartCPUProfile(f)
		defer pprof.StopCPUProfile()
	}
	debug.SetGCPercent(800)
	t0 := time.Now()
	cfg := &packages.Config{Mode: packages.LoadAllSyntax, Dir: *dir, BuildFlags: []string{"-tags=verif"},
		Env: append(os.Environ(), "GOFLAGS=-mod=mod", "GOPROXY=off", "GOSUMDB=off")}
	if *overlayDir != "" {
		cfg.Overlay = map[string][]byte{}
		pdir := filepath.Join(*dir, strings.TrimPrefix(*pkgPat, "./"))
		ents, _ := os.ReadDir(*overlayDir)
		for _, e := range ents {
			if e.IsDir() || !strings.HasSuffix(e.Name(), ".go") || strings.HasSuffix(e.Name(), "_test.go") {
				continue
			}
			b, _ := os.ReadFile(filepath.Join(*overlayDir, e.Name()))
			cfg.Overlay[filepath.Join(pdir, e.Name())] = b
		}
	}
	pkgs, err := packages.Load(cfg, *pkgPat)
	if err != nil {
		fmt.Fprintln(os.Stderr, "load:", err)
		os.Exit(2)
	}
	if packages.PrintErrors(pkgs) > 0 {
		os.Exit(2)
	}
	prog, spkgs := ssautil.AllPackages(pkgs, ssa.InstantiateGenerics)
	prog.Build()
	tLoad := time.Since(t0)
	mainPkg := spkgs[0]
	hfn := mainPkg.Func(*harness)
	if hfn == nil {
		fmt.Fprintln(os.Stderr, "no such harness", *harness, "in", mainPkg.Pkg.Path(), "files:", len(pkgs[0].GoFiles), pkgs[0].GoFiles)
		os.Exit(2)
	}
	conf := &Config{maxSteps: *maxSteps, maxDepth: 2000, mapOrder: *mapOrder, prog: prog, mainPkg: mainPkg, hfn: hfn,
		initPkgs: map[string]bool{mainPkg.Pkg.Path(): true}, traceCalls: *trace}
	for _, p := range strings.Split(*initPkgs, ",") {
		if p != "" {
			conf.initPkgs[p] = true
		}
	}
	// -args: comma separated positions; an integer position may be a range a..b; the cartesian
	// product of all positions is explored (one initial work item each).
	var positions [][]Value
	if *hargs != "" {
		for i, a := range strings.Split(*hargs, ",") {
			if i >= len(hfn.Params) {
				fmt.Fprintln(os.Stderr, "too many harness args")
				os.Exit(2)
			}
			k, _ := basicOf(hfn.Params[i].Type())
			switch k {
			case kString:
				positions = append(positions, []Value{a})
			case kBool:
				positions = append(positions, []Value{a == "true" || a == "1"})
			default:
				lo, hi := a, a
				if j := strings.Index(a, ".."); j >= 0 {
					lo, hi = a[:j], a[j+2:]
				}
				l, err1 := strconv.ParseInt(lo, 10, 64)
				h, err2 := strconv.ParseInt(hi, 10, 64)
				if err1 != nil || err2 != nil {
					fmt.Fprintln(os.Stderr, "bad harness arg", a)
					os.Exit(2)
				}
				var vs []Value
				for x := l; x <= h; x++ {
					vs = append(vs, x)
				}
				positions = append(positions, vs)
			}
		}
	}
	if len(positions) != len(hfn.Params) {
		fmt.Fprintf(os.Stderr, "harness %s wants %d args, got %d\n", *harness, len(hfn.Params), len(positions))
		os.Exit(2)
	}
	conf.argsets = [][]Value{nil}
	for _, vs := range positions {
		var next [][]Value
		for _, pre := range conf.argsets {
			for _, v := range vs {
				next = append(next, append(append([]Value{}, pre...), v))
			}
		}
		conf.argsets = next
	}
	for _, as := range conf.argsets {
		var ss []string
		for _, a := range as {
			ss = append(ss, fmt.Sprint(a))
		}
		conf.argstrs = append(conf.argstrs, strings.Join(ss, ","))
	}
	rt := prog.ImportedPackage("runtime")
	conf.rtErr = rt.Type("errorString").Object().Type()
	initUnicodeTables()

	sh := newShared()
	sh.maxPaths = *maxPaths
	sh.witnessCap = *witnessCap
	if *timeout > 0 {
		sh.deadline = time.Now().Add(*timeout)
	}
	for i := len(conf.argsets) - 1; i >= 0; i-- {
		sh.work = append(sh.work, WorkItem{argIdx: i})
	}

	var wg sync.WaitGroup
	for w := 0; w < *workers; w++ {
		wg.Add(1)
		go func(w int) {
			defer wg.Done()
			sargs := solverArgs(*z3bin)
			solver := NewSolver(*z3bin, sargs...)
			// portfolio partner for assertion queries the primary cannot decide
			switch {
			case strings.Contains(*z3bin, "z3-new"):
				solver.fallbackBin, solver.fallbackArgs = "z3", solverArgs("z3")
			case strings.HasSuffix(*z3bin, "z3"):
				solver.fallbackBin, solver.fallbackArgs = "z3-new", solverArgs("z3-new")
			}
			if *smtlog != "" && w == 0 {
				f, _ := os.Create(*smtlog)
				solver.log = f
			}
			defer func() {
				sh.mu.Lock()
				sh.Queries += solver.Queries
				sh.SolverTime += solver.Time
				if false {
					fmt.Fprintf(os.Stderr, "solver: prep %v check %v model %v total %v\n", solver.TPrep, solver.TCheck, solver.TModel, solver.Time)
				}
				sh.mu.Unlock()
				solver.CloseAll()
			}()
			worker(conf, sh, solver, *maxFan)
		}(w)
	}
	wg.Wait()

	var funcs []string
	for f := range sh.Funcs {
		funcs = append(funcs, f)
	}
	sort.Strings(funcs)
	out := map[string]interface{}{
		"harness": *harness, "args": *hargs, "pkg": *pkgPat, "paths": sh.Paths, "infeasible": sh.Infeasible,
		"unsupported": sh.Unsupported, "unsupported_reasons": sh.reasons(sh.UnsupportedReasons),
		"inconclusive": sh.Inconclusive, "inconclusive_reasons": sh.reasons(sh.InconclusiveReasons),
		"violations": sh.Violations, "decisions": sh.Decisions,
		"queries": sh.Queries, "solver_s": sh.SolverTime.Seconds(), "load_s": tLoad.Seconds(),
		"wall_s": time.Since(t0).Seconds(), "steps": sh.Steps, "max_path_steps": sh.MaxSteps, "pending": len(sh.work),
		"leaks": sh.Leaks, "terms": numTerms(), "witnesses": sh.Witnesses, "functions": funcs,
		"timed_out": sh.TimedOut, "aborted_vacuous": sh.Aborted, "map_sites": sh.MapSites, "solver": *z3bin,
		"maporder": *mapOrder, "decided_by_domain": sh.domDecided.Load(), "stubs": sh.stubList(), "completed": sh.Completed, "argsets": conf.argstrs, "workers": *workers, "maxsteps": *maxSteps,
	}
	b, _ := json.MarshalIndent(out, "", " ")
	if *outFile != "" {
		os.WriteFile(*outFile, b, 0644)
	} else {
		fmt.Println(string(b))
	}
}

func solverArgs(bin string) []string {
	if strings.Contains(bin, "cvc5") {
		return []string{"--incremental", "--lang=smt2", "--produce-models", fmt.Sprintf("--tlimit-per=%d", QueryTimeoutMs)}
	}
	return []string{"-in"}
}

func worker(conf *Config, sh *Shared, solver *Solver, maxFan int) {
	for {
		item, ok := sh.pop()
		if !ok {
			return
		}
		func() {
			defer sh.done()
			model := map[string]uint64{}
			if len(item.pc)+len(item.extra) > 0 {
				sat, m, err := solver.Check(cp(item.pc, item.extra...))
				if err != nil {
					sh.mu.Lock()
					sh.Inconclusive++
					sh.InconclusiveReasons["branch feasibility: "+err.Error()]++
					sh.mu.Unlock()
					return
				}
				if !sat {
					sh.mu.Lock()
					sh.Infeasible++
					sh.mu.Unlock()
					return
				}
				model = m
			}
			ex := &Explorer{sh: sh, solver: solver, maxFan: maxFan, argIdx: item.argIdx, argStr: conf.argstrs[item.argIdx]}
			in := newInterp(conf, ex)
			ex.in = in
			ex.prefix, ex.extra = item.prefix, item.extra
			ex.known = map[*Term]bool{}
			ex.doms = map[*Term]*dom{}
			ex.setModel(model)
			runPath(in, ex, conf)
			sh.mu.Lock()
			sh.Paths++
			sh.Steps += int64(in.steps)
			if in.steps > sh.MaxSteps {
				sh.MaxSteps = in.steps
			}
			sh.Decisions += len(ex.trace)
			for f := range in.funcs {
				sh.Funcs[f] = true
			}
			for f := range in.stubs {
				sh.Stubs[f] = true
			}
			for k, v := range in.mapSites {
				if v > sh.MapSites[k] {
					sh.MapSites[k] = v
				}
			}
			sh.mu.Unlock()
		}()
	}
}

func runPath(in *Interp, ex *Explorer, conf *Config) {
	completed := false
	defer func() {
		r := recover()
		leaked := in.sched.finish()
		sh := ex.sh
		if len(leaked) > 0 {
			sh.mu.Lock()
			sh.Leaks++
			sh.mu.Unlock()
		}
		switch r := r.(type) {
		case nil:
			if completed {
				sh.mu.Lock()
				sh.Completed[ex.argStr]++
				if len(sh.Witnesses) < sh.witnessCap {
					sh.mu.Unlock()
					w := Witness{Args: ex.argStr, Inputs: ex.inputs(ex.model), Obs: ex.observations(ex.model), Steps: in.steps}
					sh.mu.Lock()
					sh.Witnesses = append(sh.Witnesses, w)
				}
				sh.mu.Unlock()
			}
		case abortPath:
			switch r.kind {
			case "infeasible":
				sh.mu.Lock()
				sh.Aborted++
				sh.mu.Unlock()
			case "unsupported":
				sh.mu.Lock()
				sh.Unsupported++
				sh.UnsupportedReasons[r.reason]++
				sh.mu.Unlock()
			case "inconclusive":
				sh.mu.Lock()
				sh.Inconclusive++
				sh.InconclusiveReasons[r.reason]++
				sh.mu.Unlock()
			case "steps", "deadlock":
				ex.violation(r.kind, r.reason, ex.model)
			}
		case targetPanic:
			ex.violation("panic", "uncaught panic: "+in.panicString(r.v), ex.model)
		default:
			fmt.Fprintln(os.Stderr, "INTERPRETER FAILURE:", r)
			fmt.Fprintln(os.Stderr, "   at", in.failInstr)
			for i := len(in.failStack) - 1; i >= 0 && i > len(in.failStack)-14; i-- {
				fmt.Fprintln(os.Stderr, "   in", in.failStack[i])
			}
			os.Exit(3)
		}
	}()
	if f := conf.mainPkg.Func("init"); f != nil {
		in.call(nil, f, nil)
	}
	in.steps = 0
	in.initDone = true
	in.call(nil, conf.hfn, conf.argsets[ex.argIdx])
	completed = true
}

func (in *Interp) panicString(v Value) string {
	if i, ok := v.(Iface); ok {
		if i.T == nil {
			return "nil"
		}
		if s, ok := i.V.(string); ok {
			return s
		}
		if s := in.tryErrorString(i); s != "" {
			return s
		}
		return fmt.Sprintf("%v %v", i.T, i.V)
	}
	return fmt.Sprint(v)
}
