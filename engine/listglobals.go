package main

import (
	"fmt"
	"go/ast"
	"go/build"
	"go/parser"
	"go/token"
	"os"
	"path/filepath"
	"sort"
	"strings"
)

// listGlobals prints the names of the package-level variables declared by the non-test files of
// the package directory that take part in a build with the verif tag (syntax only; used by vcheck
// to generate the native digest of a package's own state).
func listGlobals(dir string) error {
	ctxt := build.Default
	ctxt.BuildTags = append(ctxt.BuildTags, "verif")
	ents, err := os.ReadDir(dir)
	if err != nil {
		return err
	}
	seen := map[string]bool{}
	fset := token.NewFileSet()
	for _, e := range ents {
		n := e.Name()
		if e.IsDir() || !strings.HasSuffix(n, ".go") || strings.HasSuffix(n, "_test.go") || strings.HasPrefix(n, "zz_verif") {
			continue
		}
		if ok, err := ctxt.MatchFile(dir, n); err != nil || !ok {
			continue
		}
		f, err := parser.ParseFile(fset, filepath.Join(dir, n), nil, parser.SkipObjectResolution)
		if err != nil {
			return err
		}
		for _, d := range f.Decls {
			gd, ok := d.(*ast.GenDecl)
			if !ok || gd.Tok != token.VAR {
				continue
			}
			for _, sp := range gd.Specs {
				for _, id := range sp.(*ast.ValueSpec).Names {
					if id.Name != "_" && !strings.HasPrefix(id.Name, "verif") {
						seen[id.Name] = true
					}
				}
			}
		}
	}
	var names []string
	for n := range seen {
		names = append(names, n)
	}
	sort.Strings(names)
	for _, n := range names {
		fmt.Println(n)
	}
	return nil
}
