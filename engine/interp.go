package main

import (
	"fmt"
	"go/token"
	"go/types"
	"os"
	"regexp"
	"sort"
	"strconv"
	"strings"
	"sync"

	"golang.org/x/tools/go/ssa"
)

type ssaFunc = ssa.Function

// SymPtr is the address of cells[idx] for an in-bounds symbolic idx.
type SymPtr struct {
	cells []Value
	idx   *Term
}

type targetPanic struct{ v Value }

type abortPath struct {
	kind   string // "infeasible", "unsupported", "steps", "deadlock"
	reason string
}

type fnInfo struct {
	idx map[ssa.Value]int
	n   int
}

type deferred struct {
	fn   Value
	args []Value
	tail *deferred
}

type frame struct {
	in               *Interp
	caller           *frame
	fn               *ssa.Function
	block, prevBlock *ssa.BasicBlock
	regs             []Value
	info             *fnInfo
	defers           *deferred
	result           Value
	panicking        bool
	panicVal         interface{}
}

type Interp struct {
	conf      *Config
	prog      *ssa.Program
	globals   map[*ssa.Global]*Value
	infos     map[*ssa.Function]*fnInfo
	rtErrStr  types.Type
	ex        *Explorer
	sched     *Sched
	steps     int
	maxSteps  int
	initPkgs  map[string]bool
	trace     bool
	nInputs   map[string]int
	tape      []tapeEntry
	depth     int
	stack     []*ssa.Function
	mainPkg   *ssa.Package
	failStack []*ssa.Function
	failInstr string
	funcs     map[string]bool
	mapSites  map[string]int
	initDone  bool
	mapOrder  string
	frozen    map[*Value]string
	frozenMap map[*MapV]string
	curPos    token.Pos
	onceDone  map[*Value]bool
	ownInit   bool
	raceOn    bool
	shadows   map[*Value]*shadow
	mapCells  map[*MapV]*Value // one race-tracking location per map
	pools     map[*Value][]Value
	syncMaps  map[*Value]*MapV
	atomVals  map[*Value]*Value
	lockHeld  int // nesting depth of mutex / sync.Once critical sections
	permCache map[string][]int
	objIDs    map[interface{}]uint64
	stubs     map[string]bool
}

type tapeEntry struct {
	Kind string
	Name string
	W    int
	conc bool
	val  uint64
}

var infoCache sync.Map // *ssa.Function -> *fnInfo (immutable once built)

func newInterp(conf *Config, ex *Explorer) *Interp {
	in := &Interp{conf: conf, prog: conf.prog, globals: map[*ssa.Global]*Value{}, infos: map[*ssa.Function]*fnInfo{},
		rtErrStr: conf.rtErr, ex: ex, mainPkg: conf.mainPkg, maxSteps: conf.maxSteps, initPkgs: conf.initPkgs,
		nInputs: map[string]int{}, stubs: map[string]bool{}, funcs: map[string]bool{}, mapSites: map[string]int{},
		trace: conf.traceCalls}
	in.sched = newSched(in)
	return in
}

func (in *Interp) rtPanic(msg string) {
	panic(targetPanic{Iface{in.rtErrStr, "runtime error: " + msg}})
}

func (in *Interp) unsupported(reason string) {
	panic(abortPath{kind: "unsupported", reason: reason})
}

func (in *Interp) branch(c *Term) bool {
	if c.IsConst() {
		return c.C == 1
	}
	return in.ex.Branch(c)
}

func (in *Interp) concretize(t *Term, why string) uint64 {
	if t.IsConst() {
		return t.C
	}
	return in.ex.Concretize(t, why)
}

func (in *Interp) info(fn *ssa.Function) *fnInfo {
	if fi, ok := in.infos[fn]; ok {
		return fi
	}
	if c, ok := infoCache.Load(fn); ok {
		in.infos[fn] = c.(*fnInfo)
		return c.(*fnInfo)
	}
	fi := &fnInfo{idx: map[ssa.Value]int{}}
	add := func(v ssa.Value) { fi.idx[v] = fi.n; fi.n++ }
	for _, p := range fn.Params {
		add(p)
	}
	for _, p := range fn.FreeVars {
		add(p)
	}
	for _, b := range fn.Blocks {
		for _, ins := range b.Instrs {
			if v, ok := ins.(ssa.Value); ok {
				add(v)
			}
		}
	}
	in.infos[fn] = fi
	infoCache.Store(fn, fi)
	return fi
}

// lazyInitOK: stdlib packages whose initialiser only builds tables and error values; it is run on
// the first use of one of the package's variables.
var lazyInitOK = map[string]bool{
	"strconv": true, "io": true, "unicode/utf8": true, "strings": true, "bytes": true, "sort": true, "math": true,
	"math/bits": true, "net/url": true, "path": true, "bufio": true, "io/ioutil": true, "errors": false,
}

// benignUninit: variables only handed to stubs (log.New(os.Stderr, ...)); they read as nil.
var benignUninit = map[string]bool{"os.Stderr": true, "os.Stdout": true, "os.Stdin": true}

// dynInit reports whether the package initialiser of g's package stores into g.
var dynInitCache sync.Map // *ssa.Package -> map[*ssa.Global]bool

func dynInit(g *ssa.Global) bool {
	if g.Pkg == nil {
		return false
	}
	if m, ok := dynInitCache.Load(g.Pkg); ok {
		return m.(map[*ssa.Global]bool)[g]
	}
	m := map[*ssa.Global]bool{}
	var root func(v ssa.Value) *ssa.Global
	root = func(v ssa.Value) *ssa.Global {
		switch v := v.(type) {
		case *ssa.Global:
			return v
		case *ssa.FieldAddr:
			return root(v.X)
		case *ssa.IndexAddr:
			return root(v.X)
		}
		return nil
	}
	seen := map[*ssa.Function]bool{}
	var scan func(f *ssa.Function)
	scan = func(f *ssa.Function) {
		if f == nil || seen[f] || f.Pkg != g.Pkg {
			return
		}
		seen[f] = true
		for _, b := range f.Blocks {
			for _, ins := range b.Instrs {
				switch ins := ins.(type) {
				case *ssa.Store:
					if gl := root(ins.Addr); gl != nil {
						m[gl] = true
					}
				case *ssa.Call:
					if cf, ok := ins.Call.Value.(*ssa.Function); ok && strings.HasPrefix(cf.Name(), "init") {
						scan(cf)
					}
				}
			}
		}
	}
	scan(g.Pkg.Func("init"))
	dynInitCache.Store(g.Pkg, m)
	return m[g]
}

func (in *Interp) global(g *ssa.Global) *Value {
	if c, ok := in.globals[g]; ok {
		return c
	}
	if g.Pkg != nil && !in.initPkgs[g.Pkg.Pkg.Path()] && dynInit(g) {
		path := g.Pkg.Pkg.Path()
		if benignUninit[path+"."+g.Name()] {
			c := new(Value)
			*c = zero(g.Type().(*types.Pointer).Elem())
			in.globals[g] = c
			return c
		}
		if !lazyInitOK[path] {
			in.unsupported("use of package-level variable " + path + "." + g.Name() + " whose package initialiser is not executed")
		}
		// run the initialiser of this (side-effect free, allow-listed) package on first use
		if !in.ownInit {
			m := make(map[string]bool, len(in.initPkgs)+4)
			for k, v := range in.initPkgs {
				m[k] = v
			}
			in.initPkgs, in.ownInit = m, true
		}
		in.initPkgs[path] = true
		if f := g.Pkg.Func("init"); f != nil {
			in.call(nil, f, nil)
		}
		if c, ok := in.globals[g]; ok {
			return c
		}
	}
	c := new(Value)
	*c = zero(g.Type().(*types.Pointer).Elem())
	in.globals[g] = c
	return c
}

func (fr *frame) get(key ssa.Value) Value {
	switch key := key.(type) {
	case nil:
		return nil
	case *ssa.Function:
		return key
	case *ssa.Builtin:
		return key
	case *ssa.Const:
		return constValue(key)
	case *ssa.Global:
		return fr.in.global(key)
	}
	if i, ok := fr.info.idx[key]; ok {
		return fr.regs[i]
	}
	panic(fmt.Sprintf("get: no value for %T: %v", key, key.Name()))
}

func (fr *frame) set(key ssa.Value, v Value) { fr.regs[fr.info.idx[key]] = v }

func constValue(c *ssa.Const) Value {
	if c.Value == nil {
		return zero(c.Type())
	}
	k, w := basicOf(c.Type())
	switch k {
	case kBool:
		return c.Value.String() == "true"
	case kInt:
		return sext(uint64(c.Int64()), w)
	case kUint:
		return c.Uint64() & mask(w)
	case kFloat:
		f := c.Float64()
		if w == 32 {
			f = float64(float32(f))
		}
		return f
	case kString:
		return constantString(c)
	}
	panic(fmt.Sprintf("constValue: unexpected %v", c))
}

func deref(t types.Type) types.Type { return t.Underlying().(*types.Pointer).Elem() }

func load(addr *Value) Value { return copyVal(*addr) }

// store writes v into the cell, field-wise for structs and arrays so that interior pointers
// obtained earlier (FieldAddr/IndexAddr) stay valid, as in Go.
func (in *Interp) store(addr *Value, v Value) {
	if in.raceOn {
		in.raceAccess(addr, true)
	}
	if in.frozen != nil {
		if lbl, ok := in.frozen[addr]; ok {
			in.frozenWrite("store", lbl)
		}
	}
	switch nv := v.(type) {
	case Struct:
		if cur, ok := (*addr).(Struct); ok && len(cur) == len(nv) {
			for i := range nv {
				in.store(&cur[i], nv[i])
			}
			return
		}
	case Array:
		if cur, ok := (*addr).(Array); ok && len(cur) == len(nv) {
			for i := range nv {
				in.store(&cur[i], nv[i])
			}
			return
		}
	}
	*addr = copyVal(v)
}

func (in *Interp) step(fr *frame, instr ssa.Instruction) {
	in.steps++
	if in.steps > in.maxSteps {
		panic(abortPath{kind: "steps", reason: fmt.Sprintf("step bound %d exceeded in %s", in.maxSteps, fr.fn)})
	}
}

type continuation int

const (
	kNext continuation = iota
	kReturn
	kJump
)

func (in *Interp) visitInstr(fr *frame, instr ssa.Instruction) continuation {
	in.step(fr, instr)
	if p := instr.Pos(); p != token.NoPos {
		in.curPos = p
	}
	switch instr := instr.(type) {
	case *ssa.DebugRef:
	case *ssa.UnOp:
		fr.set(instr, in.unopInstr(fr, instr))
	case *ssa.BinOp:
		fr.set(instr, in.binop(instr.Op, instr.X.Type(), fr.get(instr.X), fr.get(instr.Y)))
	case *ssa.Call:
		fn, args := in.prepareCall(fr, &instr.Call)
		fr.set(instr, in.call(fr, fn, args))
	case *ssa.ChangeInterface:
		fr.set(instr, fr.get(instr.X))
	case *ssa.ChangeType:
		fr.set(instr, fr.get(instr.X))
	case *ssa.Convert:
		fr.set(instr, in.conv(instr.Type(), instr.X.Type(), fr.get(instr.X)))
	case *ssa.MakeInterface:
		fr.set(instr, Iface{T: instr.X.Type(), V: fr.get(instr.X)})
	case *ssa.Extract:
		fr.set(instr, fr.get(instr.Tuple).(Tuple)[instr.Index])
	case *ssa.Slice:
		fr.set(instr, in.slice(instr, fr.get(instr.X), fr.get(instr.Low), fr.get(instr.High), fr.get(instr.Max)))
	case *ssa.Return:
		switch len(instr.Results) {
		case 0:
		case 1:
			fr.result = fr.get(instr.Results[0])
		default:
			var res Tuple
			for _, r := range instr.Results {
				res = append(res, fr.get(r))
			}
			fr.result = res
		}
		fr.block = nil
		return kReturn
	case *ssa.RunDefers:
		fr.runDefers()
	case *ssa.Panic:
		panic(targetPanic{fr.get(instr.X)})
	case *ssa.Send:
		in.sched.send(fr.get(instr.Chan).(*Chan), fr.get(instr.X))
	case *ssa.Store:
		if sp, ok := fr.get(instr.Addr).(SymPtr); ok {
			ci := in.concretize(sp.idx, "store through symbolic index")
			in.store(&sp.cells[ci], fr.get(instr.Val))
			break
		}
		addr := fr.get(instr.Addr).(*Value)
		if addr == nil {
			in.rtPanic("invalid memory address or nil pointer dereference")
		}
		in.store(addr, fr.get(instr.Val))
	case *ssa.If:
		succ := 1
		switch c := fr.get(instr.Cond).(type) {
		case bool:
			if c {
				succ = 0
			}
		case *Term:
			if in.branch(c) {
				succ = 0
			}
		default:
			panic(fmt.Sprintf("If on %T", c))
		}
		fr.prevBlock, fr.block = fr.block, fr.block.Succs[succ]
		return kJump
	case *ssa.Jump:
		fr.prevBlock, fr.block = fr.block, fr.block.Succs[0]
		return kJump
	case *ssa.Defer:
		fn, args := in.prepareCall(fr, &instr.Call)
		fr.defers = &deferred{fn: fn, args: args, tail: fr.defers}
	case *ssa.Go:
		fn, args := in.prepareCall(fr, &instr.Call)
		in.sched.spawn(fmt.Sprintf("go %v at %s", calleeName(fn), in.prog.Fset.Position(instr.Pos())), func() {
			in.call(nil, fn, args)
		})
	case *ssa.MakeChan:
		n := fr.get(instr.Size).(int64)
		fr.set(instr, &Chan{cap: int(n), zero: zero(instr.Type().Underlying().(*types.Chan).Elem())})
	case *ssa.Alloc:
		addr := new(Value)
		*addr = zero(deref(instr.Type()))
		fr.set(instr, addr)
	case *ssa.MakeSlice:
		ln := in.concInt(fr.get(instr.Len), "make len")
		cp := in.concInt(fr.get(instr.Cap), "make cap")
		if ln < 0 || cp < ln {
			in.rtPanic("makeslice: len out of range")
		}
		s := make([]Value, cp)
		et := instr.Type().Underlying().(*types.Slice).Elem()
		for i := range s {
			s[i] = zero(et)
		}
		fr.set(instr, s[:ln])
	case *ssa.MakeMap:
		fr.set(instr, newMap(instr.Type().Underlying().(*types.Map).Key()))
	case *ssa.Range:
		fr.set(instr, in.rangeIter(fr.get(instr.X), instr.X.Type(), instr))
	case *ssa.Next:
		fr.set(instr, fr.get(instr.Iter).(iter).next(in))
	case *ssa.FieldAddr:
		p := in.concPtr(fr.get(instr.X))
		if p == nil {
			in.rtPanic("invalid memory address or nil pointer dereference")
		}
		fr.set(instr, &(*p).(Struct)[instr.Field])
	case *ssa.Field:
		fr.set(instr, fr.get(instr.X).(Struct)[instr.Field])
	case *ssa.IndexAddr:
		x := fr.get(instr.X)
		var cells []Value
		if sp, ok := x.(SymPtr); ok {
			x = in.concPtr(sp)
		}
		switch x := x.(type) {
		case []Value:
			cells = x
		case *Value:
			if x == nil {
				in.rtPanic("invalid memory address or nil pointer dereference")
			}
			cells = (*x).(Array)
		default:
			panic(fmt.Sprintf("IndexAddr on %T", x))
		}
		i := in.indexCheck(fr.get(instr.Index), len(cells), false)
		if ci, ok := i.(int); ok {
			fr.set(instr, &cells[ci])
		} else {
			fr.set(instr, SymPtr{cells, i.(*Term)})
		}
	case *ssa.Index:
		x := fr.get(instr.X)
		switch x := x.(type) {
		case Array:
			fr.set(instr, in.indexReadT(x, fr.get(instr.Index), instr.Type()))
		case string, *SymStr:
			fr.set(instr, in.indexRead(strBytes(x), fr.get(instr.Index)))
		default:
			panic(fmt.Sprintf("Index on %T", x))
		}
	case *ssa.Lookup:
		fr.set(instr, in.lookup(instr, fr.get(instr.X), fr.get(instr.Index)))
	case *ssa.MapUpdate:
		m := fr.get(instr.Map).(*MapV)
		if m == nil {
			in.rtPanic("assignment to entry in nil map")
		}
		in.raceMapAccess(m, true)
		if in.frozenMap != nil {
			if lbl, ok := in.frozenMap[m]; ok {
				in.frozenWrite("map update", lbl)
			}
		}
		in.mapSet(m, fr.get(instr.Key), fr.get(instr.Value))
	case *ssa.TypeAssert:
		fr.set(instr, in.typeAssert(instr, fr.get(instr.X).(Iface)))
	case *ssa.MakeClosure:
		var b []Value
		for _, x := range instr.Bindings {
			b = append(b, fr.get(x))
		}
		fr.set(instr, &Closure{instr.Fn.(*ssa.Function), b})
	case *ssa.Select:
		cases := make([]selCase, len(instr.States))
		for i, st := range instr.States {
			c, _ := fr.get(st.Chan).(*Chan)
			cases[i] = selCase{c: c, send: st.Dir == types.SendOnly}
			if cases[i].send {
				cases[i].val = fr.get(st.Send)
			}
		}
		idx, v, ok := in.sched.selectOp(cases, instr.Blocking)
		// result: (index, recvOk, r_0 ... r_n-1) with one r per receive case
		res := Tuple{int64(idx), ok}
		for i, st := range instr.States {
			if st.Dir != types.RecvOnly {
				continue
			}
			if i == idx {
				res = append(res, v)
			} else {
				res = append(res, zero(st.Chan.Type().Underlying().(*types.Chan).Elem()))
			}
		}
		fr.set(instr, res)
	default:
		panic(fmt.Sprintf("unexpected instruction %T", instr))
	}
	return kNext
}

func calleeName(fn Value) string {
	switch fn := fn.(type) {
	case *ssa.Function:
		return fn.String()
	case *Closure:
		return fn.Fn.String()
	case *ssa.Builtin:
		return fn.Name()
	}
	return fmt.Sprintf("%T", fn)
}

func (in *Interp) concInt(v Value, why string) int {
	switch v := v.(type) {
	case int64:
		return int(v)
	case uint64:
		return int(v)
	case *Term:
		return int(sext(in.concretize(v, why), v.S.W))
	}
	panic(fmt.Sprintf("concInt of %T", v))
}

// indexCheck bounds-checks idx against n (forking on symbolic idx). If needConc, the
// result is a concrete int; otherwise a *Term may be returned for in-bounds symbolic idx.
func (in *Interp) indexCheck(idx Value, n int, needConc bool) Value {
	switch i := idx.(type) {
	case int64:
		if i < 0 || int(i) >= n {
			in.rtPanic(fmt.Sprintf("index out of range [%d] with length %d", i, n))
		}
		return int(i)
	case uint64:
		if i >= uint64(n) {
			in.rtPanic(fmt.Sprintf("index out of range [%d] with length %d", i, n))
		}
		return int(i)
	case *Term:
		w := i.S.W
		var oob *Term
		if w < 64 && uint64(n) > mask(w) {
			oob = BoolConst(false) // (signed narrow index types are not used by the code under test)
		} else {
			oob = bvCmp("bvule", Const(w, uint64(n)), i) // unsigned compare covers negatives
		}
		if in.branch(oob) {
			in.rtPanic(fmt.Sprintf("index out of range [sym] with length %d", n))
		}
		if needConc {
			return int(in.concretize(i, "index"))
		}
		return i
	}
	panic(fmt.Sprintf("indexCheck %T", idx))
}

// indexRead reads cells[idx], building an ite chain for symbolic idx over scalar cells.
func (in *Interp) indexRead(cells []Value, idx Value) Value {
	return in.indexReadT(cells, idx, nil)
}

// indexReadT: t is the static element type when the caller knows it (it fixes the width of the
// selection term when every cell is concrete).
func (in *Interp) indexReadT(cells []Value, idx Value, t types.Type) Value {
	i := in.indexCheck(idx, len(cells), false)
	if ci, ok := i.(int); ok {
		return copyVal(cells[ci])
	}
	it := i.(*Term)
	return in.selectChainT(cells, it, t)
}

func (in *Interp) selectChain(cells []Value, it *Term) Value { return in.selectChainT(cells, it, nil) }

func (in *Interp) selectChainT(cells []Value, it *Term, t types.Type) Value {
	// all cells must be integers of same width (concrete or term)
	w := 0
	var kd kind = kUint
	if t != nil {
		if k, tw := basicOf(t); k == kInt || k == kUint {
			w, kd = tw, k
		}
	}
	terms := make([]*Term, len(cells))
	for j, c := range cells {
		switch c := c.(type) {
		case uint64:
			_ = c
		case int64:
			kd = kInt
		case *Term:
			w = c.S.W
		default:
			v := in.concretize(it, "index of non-scalar")
			return copyVal(cells[v])
		}
		_ = j
	}
	if w == 0 {
		// all concrete: pick minimal width covering values
		w = 64
		mx := uint64(0)
		for _, c := range cells {
			if u := rawBits(c); u > mx {
				mx = u
			}
		}
		if kd == kUint && mx < 256 {
			w = 8
		}
	}
	for j, c := range cells {
		terms[j] = intTerm(c, w)
	}
	r := terms[len(terms)-1]
	for j := len(terms) - 2; j >= 0; j-- {
		r = Ite(Eq(it, Const(it.S.W, uint64(j))), terms[j], r)
	}
	return simpInt(kd, w, r)
}

func (in *Interp) unopInstr(fr *frame, instr *ssa.UnOp) Value {
	x := fr.get(instr.X)
	switch instr.Op {
	case token.MUL:
		if sp, ok := x.(SymPtr); ok {
			return in.selectChainT(sp.cells, sp.idx, instr.Type())
		}
		p := x.(*Value)
		if p == nil {
			in.rtPanic("invalid memory address or nil pointer dereference")
		}
		if in.raceOn {
			in.raceAccess(p, false)
		}
		return load(p)
	case token.ARROW:
		v, ok := in.sched.recv(x.(*Chan))
		if instr.CommaOk {
			return Tuple{v, ok}
		}
		return v
	}
	return in.unop(instr.Op, instr.X.Type(), x)
}

func (in *Interp) slice(instr *ssa.Slice, x, lo, hi, max Value) Value {
	var Len, Cap int
	switch x := x.(type) {
	case string:
		Len = len(x)
	case *SymStr:
		Len = len(x.B)
	case []Value:
		Len, Cap = len(x), cap(x)
	case *Value:
		if x == nil {
			in.rtPanic("slice of nil array pointer")
		}
		a := (*x).(Array)
		Len, Cap = len(a), len(a)
	}
	_, isStr := x.(string)
	_, isSym := x.(*SymStr)
	if isStr || isSym {
		Cap = Len
	}
	l, h, m := 0, Len, Cap
	// symbolic lo with hi = lo + c  (e.g. hex[t:t+1]) handled specially for strings
	if lt, ok := lo.(*Term); ok && (isStr || isSym) && hi != nil {
		if ht, ok := hi.(*Term); ok {
			d := bvBin("bvsub", ht, lt)
			if d.IsConst() {
				n := int(sext(d.C, d.S.W))
				// bounds: lo+n <= Len
				oob := bvCmp("bvult", Const(lt.S.W, uint64(Len-n)), lt)
				if n < 0 || n > Len || in.branch(oob) {
					in.rtPanic("slice bounds out of range")
				}
				b := strBytes(x)
				out := make([]Value, n)
				for j := 0; j < n; j++ {
					out[j] = in.selectChain(b[j:len(b)-n+j+1], lt)
				}
				return mkStr(out)
			}
		}
	}
	if lo != nil {
		l = in.concInt(lo, "slice lo")
	}
	if hi != nil {
		h = in.concInt(hi, "slice hi")
	}
	if max != nil {
		m = in.concInt(max, "slice max")
	}
	if l < 0 || h < l || h > m || m > Cap {
		in.rtPanic(fmt.Sprintf("slice bounds out of range [%d:%d:%d] with capacity %d", l, h, m, Cap))
	}
	switch x := x.(type) {
	case string:
		return x[l:h]
	case *SymStr:
		return mkStr(x.B[l:h])
	case []Value:
		return x[l:h:m]
	case *Value:
		return []Value((*x).(Array))[l:h:m]
	}
	panic("slice")
}

func (in *Interp) lookup(instr *ssa.Lookup, x, idx Value) Value {
	switch x := x.(type) {
	case string, *SymStr:
		b := strBytes(x)
		return in.indexRead(b, idx)
	case *MapV:
		in.raceMapAccess(x, false)
		v, ok := in.mapGet(x, idx)
		if !ok {
			v = zero(instr.X.Type().Underlying().(*types.Map).Elem())
		}
		if instr.CommaOk {
			return Tuple{v, ok}
		}
		return v
	}
	panic(fmt.Sprintf("lookup on %T", x))
}

// ---- maps ----

func (in *Interp) keyEq(kt types.Type, a, b Value) Value { return in.eqVal(kt, a, b) }

func (in *Interp) mapFind(m *MapV, key Value) int {
	if m == nil {
		return -1
	}
	if hk, ok := hashKey(key); ok {
		if i, ok := m.Idx[hk]; ok {
			return i
		}
		// may still equal a symbolic key
		if len(m.Idx) == m.N {
			return -1
		}
	}
	for i := range m.Keys {
		if m.Dead[i] {
			continue
		}
		_, kc := hashKey(m.Keys[i])
		_, qc := hashKey(key)
		if kc && qc {
			continue // both concrete and not found via Idx => different
		}
		switch e := in.keyEq(m.KT, m.Keys[i], key).(type) {
		case bool:
			if e {
				return i
			}
		case *Term:
			if in.branch(e) {
				return i
			}
		}
	}
	return -1
}

func (in *Interp) mapGet(m *MapV, key Value) (Value, bool) {
	i := in.mapFind(m, key)
	if i < 0 {
		return nil, false
	}
	return copyVal(m.Vals[i]), true
}

func (in *Interp) mapSet(m *MapV, key, val Value) {
	i := in.mapFind(m, key)
	if i >= 0 {
		m.Vals[i] = copyVal(val)
		return
	}
	m.Keys = append(m.Keys, key)
	m.Vals = append(m.Vals, copyVal(val))
	m.Dead = append(m.Dead, false)
	m.N++
	if hk, ok := hashKey(key); ok {
		m.Idx[hk] = len(m.Keys) - 1
	}
}

func (in *Interp) mapDelete(m *MapV, key Value) {
	i := in.mapFind(m, key)
	if i < 0 {
		return
	}
	m.Dead[i] = true
	m.N--
	if hk, ok := hashKey(m.Keys[i]); ok {
		delete(m.Idx, hk)
	}
}

// ---- iteration ----

type iter interface{ next(in *Interp) Tuple }

type mapIter struct {
	m    *MapV
	keys []int
	pos  int
}

func (it *mapIter) next(in *Interp) Tuple {
	for it.pos < len(it.keys) {
		i := it.keys[it.pos]
		it.pos++
		if it.m.Dead[i] {
			continue
		}
		return Tuple{true, it.m.Keys[i], copyVal(it.m.Vals[i])}
	}
	return Tuple{false, nil, nil}
}

type strIter struct {
	s   Value
	pos int
}

func (it *strIter) next(in *Interp) Tuple {
	n := strLen(it.s)
	if it.pos >= n {
		return Tuple{false, int64(0), int64(0)}
	}
	if s, ok := it.s.(string); ok {
		for i, r := range s[it.pos:] {
			_ = i
			p := it.pos
			it.pos += len(string(r))
			if r == 0xFFFD {
				// could be invalid byte: width 1
				rr, sz := decodeRune(s[p:])
				it.pos = p + sz
				return Tuple{true, int64(p), int64(rr)}
			}
			return Tuple{true, int64(p), int64(r)}
		}
	}
	// symbolic: run the real utf8.DecodeRuneInString on the suffix
	fn := in.lookupFunc("unicode/utf8", "DecodeRuneInString")
	sub := mkStr(strBytes(it.s)[it.pos:])
	res := in.call(nil, fn, []Value{sub}).(Tuple)
	p := it.pos
	it.pos += in.concInt(res[1], "rune width")
	return Tuple{true, int64(p), res[0]}
}

func decodeRune(s string) (rune, int) {
	for i, r := range s {
		_ = i
		if r == 0xFFFD {
			// determine width by re-encoding check
			if len(s) >= 3 && s[:3] == "\xef\xbf\xbd" {
				return r, 3
			}
			return r, 1
		}
		return r, len(string(r))
	}
	return 0xFFFD, 0
}

func (in *Interp) rangeIter(x Value, t types.Type, instr *ssa.Range) iter {
	switch x := x.(type) {
	case *MapV:
		it := &mapIter{m: x}
		if x != nil {
			in.raceMapAccess(x, false)
			for i := range x.Keys {
				if !x.Dead[i] {
					it.keys = append(it.keys, i)
				}
			}
			if len(it.keys) > 1 && in.initDone {
				pos := in.prog.Fset.Position(instr.Pos())
				site := fmt.Sprintf("%s:%d", shortFile(pos.Filename), pos.Line)
				if len(it.keys) > in.mapSites[site] {
					in.mapSites[site] = len(it.keys)
				}
				if in.mapOrderMatches(site, instr) {
					it.keys = in.permute(it.keys, site)
				}
			}
		} else {
			it.m = newMap(nil)
		}
		return it
	case string, *SymStr:
		return &strIter{s: x}
	}
	panic(fmt.Sprintf("rangeIter on %T", x))
}

// permute picks an arbitrary order through nondeterministic choices: every permutation for up to
// 5 keys; for larger maps every rotation of the insertion order (a rotation reverses the
// relative order of any chosen pair and makes any key the first or the last one). All executions
// of one range site with the same number of keys on one path use the same positional
// permutation (Go would re-randomise each time; this is a stated bound that keeps the number of
// orders per site at n! resp. n).
func (in *Interp) permute(keys []int, site string) []int {
	n := len(keys)
	ck := site + "#" + strconv.Itoa(n)
	if in.permCache == nil {
		in.permCache = map[string][]int{}
	}
	pos, ok := in.permCache[ck]
	if !ok {
		idx := make([]int, n)
		for i := range idx {
			idx[i] = i
		}
		if n > 5 {
			k := in.ex.Choose(n, "map-order")
			pos = append(append([]int{}, idx[k:]...), idx[:k]...)
		} else {
			rest := idx
			for len(rest) > 1 {
				c := in.ex.Choose(len(rest), "map-order")
				pos = append(pos, rest[c])
				rest = append(append([]int{}, rest[:c]...), rest[c+1:]...)
			}
			pos = append(pos, rest[0])
		}
		in.permCache[ck] = pos
	}
	out := make([]int, n)
	for i, p := range pos {
		out[i] = keys[p]
	}
	return out
}

// ---- type assertions ----

func (in *Interp) typeAssert(instr *ssa.TypeAssert, x Iface) Value {
	var ok bool
	var v Value
	if x.T != nil {
		if it, isI := instr.AssertedType.Underlying().(*types.Interface); isI {
			ok = types.Implements(x.T, it)
			v = x
		} else {
			ok = types.Identical(x.T, instr.AssertedType)
			v = x.V
		}
	}
	if instr.CommaOk {
		if !ok {
			v = zero(instr.AssertedType)
		}
		return Tuple{copyVal(v), ok}
	}
	if !ok {
		ts := "nil"
		if x.T != nil {
			ts = x.T.String()
		}
		in.rtPanic(fmt.Sprintf("interface conversion: interface is %s, not %s", ts, instr.AssertedType))
	}
	return copyVal(v)
}

// ---- calls ----

func (in *Interp) prepareCall(fr *frame, call *ssa.CallCommon) (fn Value, args []Value) {
	v := fr.get(call.Value)
	if call.Method == nil {
		fn = v
	} else {
		recv := v.(Iface)
		if recv.T == nil {
			in.rtPanic("invalid memory address or nil pointer dereference (method on nil interface)")
		}
		f := in.prog.LookupMethod(recv.T, call.Method.Pkg(), call.Method.Name())
		if f == nil {
			panic(fmt.Sprintf("method %s not found on %v", call.Method, recv.T))
		}
		fn = f
		args = append(args, recv.V)
	}
	for _, a := range call.Args {
		args = append(args, fr.get(a))
	}
	return
}

func (in *Interp) call(caller *frame, fn Value, args []Value) Value {
	switch fn := fn.(type) {
	case *ssa.Function:
		if fn == nil {
			in.rtPanic("call of nil function")
		}
		return in.callSSA(caller, fn, args, nil)
	case *Closure:
		return in.callSSA(caller, fn.Fn, args, fn.Env)
	case *ssa.Builtin:
		return in.callBuiltin(caller, fn, args)
	}
	panic(fmt.Sprintf("cannot call %T", fn))
}

func (in *Interp) callSSA(caller *frame, fn *ssa.Function, args []Value, env []Value) Value {
	if fn.Parent() == nil {
		name := fnName(fn)
		if h, ok := intrinsics[name]; ok {
			return h(in, caller, args)
		}
		if strings.HasPrefix(fn.Name(), "verif") && fn.Signature.Recv() == nil {
			if h, ok := verifIntrinsics[fn.Name()]; ok {
				return h(in, caller, args)
			}
		}
		if r := fn.Signature.Recv(); r != nil && len(args) > 0 {
			if _, ok := args[0].(HostObj); ok {
				if v, ok := in.tryHostCall(name, fn.Name(), args); ok {
					return v
				}
				// regular expressions on (partly) symbolic subjects: the engine's own backtracking
				// matcher over the pattern's syntax tree (regexpsym.go, validated by -selftest)
				if re, isRe := args[0].(HostObj).V.Interface().(*regexp.Regexp); isRe {
					if v, ok := in.symRegexp(re, fn.Name(), args[1:]); ok {
						in.stubs["regexp.(*Regexp)."+fn.Name()+": symbolic matcher for the pattern "+re.String()] = true
						return v
					}
				}
				in.unsupported("host method with symbolic args: " + name)
			}
		} else if _, ok := hostFuncs[name]; ok {
			if v, ok := in.tryHostCall(name, "", args); ok {
				return v
			}
		}
		if fn.Pkg != nil && fn.Pkg != in.mainPkg && fn.Signature.Recv() == nil {
			if m := in.mainPkg.Func("verifModel_" + fn.Pkg.Pkg.Name() + "_" + fn.Name()); m != nil {
				return in.callSSA(caller, m, args, nil)
			}
		}
		if h, ok := symIntrinsics[name]; ok {
			if r := h(in, caller, args); r != nil {
				return r
			}
		}
		if fn.Name() == "init" && fn.Pkg != nil && fn.Signature.Recv() == nil && !in.initPkgs[fn.Pkg.Pkg.Path()] {
			return nil // skip init of packages outside the allowlist
		}
		if fn.Blocks == nil {
			in.unsupported("no code for function " + name)
		}
	}
	if fn.Pkg != nil && in.initDone && strings.HasPrefix(fn.Pkg.Pkg.Path(), "github.com/robfig/soy") {
		if n := fnName(fn); !in.funcs[n] && !strings.Contains(n, "verif") && !strings.Contains(n, ".H_") {
			in.funcs[n] = true
		}
	}
	if in.trace {
		fmt.Fprintf(os.Stderr, "%*scall %s\n", in.depth, "", fn)
	}
	in.depth++
	in.stack = append(in.stack, fn)
	defer func() { in.stack = in.stack[:len(in.stack)-1] }()
	if in.depth > in.conf.maxDepth {
		panic(abortPath{kind: "steps", reason: "call depth bound exceeded in " + fn.String()})
	}
	defer func() { in.depth-- }()
	fr := &frame{in: in, caller: caller, fn: fn, info: in.info(fn)}
	fr.regs = make([]Value, fr.info.n)
	fr.block = fn.Blocks[0]
	for i, p := range fn.Params {
		fr.regs[fr.info.idx[p]] = args[i]
	}
	for i, fv := range fn.FreeVars {
		fr.regs[fr.info.idx[fv]] = env[i]
	}
	for fr.block != nil {
		in.runFrame(fr)
	}
	return fr.result
}

func (in *Interp) runFrame(fr *frame) {
	defer func() {
		if fr.block == nil {
			return
		}
		r := recover()
		switch r.(type) {
		case abortPath, abortG:
			panic(r) // engine-level abort: do not run target defers
		case targetPanic:
		default:
			if in.failStack == nil {
				in.failStack = append([]*ssa.Function{}, in.stack...)
				in.failInstr = fmt.Sprintf("%v in block %v", fr.fn, fr.block)
			}
			panic(r) // interpreter bug
		}
		fr.panicking = true
		fr.panicVal = r
		fr.runDefers()
		fr.block = fr.fn.Recover
	}()
	for {
		// phis
		first := 0
		instrs := fr.block.Instrs
		if _, ok := instrs[0].(*ssa.Phi); ok {
			pi := -1
			for i, p := range fr.block.Preds {
				if p == fr.prevBlock {
					pi = i
					break
				}
			}
			var tmp []Value
			for _, ins := range instrs {
				phi, ok := ins.(*ssa.Phi)
				if !ok {
					break
				}
				tmp = append(tmp, fr.get(phi.Edges[pi]))
				first++
			}
			for i := 0; i < first; i++ {
				fr.set(instrs[i].(*ssa.Phi), tmp[i])
			}
		}
		for _, ins := range instrs[first:] {
			if in.visitInstr(fr, ins) == kReturn {
				return
			}
		}
	}
}

func (fr *frame) runDefers() {
	for d := fr.defers; d != nil; d = d.tail {
		fr.runDefer(d)
	}
	fr.defers = nil
	if fr.panicking {
		panic(fr.panicVal)
	}
}

func (fr *frame) runDefer(d *deferred) {
	var ok bool
	defer func() {
		if !ok {
			r := recover()
			switch r.(type) {
			case abortPath, abortG:
				panic(r)
			case targetPanic:
			default:
				panic(r)
			}
			fr.panicking = true
			fr.panicVal = r
		}
	}()
	fr.in.call(fr, d.fn, d.args)
	ok = true
}

func (in *Interp) doRecover(caller *frame) Value {
	if caller != nil && !caller.panicking && caller.caller != nil && caller.caller.panicking {
		caller.caller.panicking = false
		p := caller.caller.panicVal
		caller.caller.panicVal = nil
		if tp, ok := p.(targetPanic); ok {
			return tp.v
		}
		panic(fmt.Sprintf("unexpected panic type %T in recover", p))
	}
	return Iface{}
}

func (in *Interp) callBuiltin(caller *frame, fn *ssa.Builtin, args []Value) Value {
	switch fn.Name() {
	case "append":
		if len(args) == 1 {
			return args[0]
		}
		var tail []Value
		switch t := args[1].(type) {
		case string, *SymStr:
			tail = strBytes(t)
		case []Value:
			tail = t
		}
		s := args[0].([]Value)
		// emulate Go growth so aliasing behaves like the runtime (cap doubling)
		if len(s)+len(tail) > cap(s) {
			nc := cap(s) * 2
			if nc < len(s)+len(tail) {
				nc = len(s) + len(tail)
			}
			// a new backing array: struct and array elements are copied by value (a pointer into
			// the old array must not alias the new one)
			ns := make([]Value, len(s), nc)
			for i := range s {
				ns[i] = copyVal(s[i])
			}
			s = ns
		}
		if in.frozen != nil && len(tail) > 0 && cap(s) > len(s) {
			full := s[:cap(s)]
			if lbl, ok := in.frozen[&full[len(s)]]; ok {
				in.frozenWrite("in-place append", lbl)
			}
		}
		for _, v := range tail {
			s = append(s, copyVal(v))
		}
		return s
	case "copy":
		dst := args[0].([]Value)
		var src []Value
		switch t := args[1].(type) {
		case string, *SymStr:
			src = strBytes(t)
		case []Value:
			src = t
		}
		if in.frozen != nil && len(dst) > 0 && len(src) > 0 {
			if lbl, ok := in.frozen[&dst[0]]; ok {
				in.frozenWrite("copy", lbl)
			}
		}
		n := len(dst)
		if len(src) < n {
			n = len(src)
		}
		for i := 0; i < n; i++ {
			dst[i] = copyVal(src[i])
		}
		return int64(n)
	case "close":
		in.sched.closeChan(args[0].(*Chan))
		return nil
	case "delete":
		if m := args[0].(*MapV); m != nil {
			in.raceMapAccess(m, true)
			if in.frozenMap != nil {
				if lbl, ok := in.frozenMap[m]; ok {
					in.frozenWrite("map delete", lbl)
				}
			}
			in.mapDelete(m, args[1])
		}
		return nil
	case "print", "println":
		return nil
	case "len":
		switch x := args[0].(type) {
		case string:
			return int64(len(x))
		case *SymStr:
			return int64(len(x.B))
		case Array:
			return int64(len(x))
		case *Value:
			return int64(len((*x).(Array)))
		case []Value:
			return int64(len(x))
		case *MapV:
			if x == nil {
				return int64(0)
			}
			return int64(x.N)
		case *Chan:
			return int64(len(x.buf))
		}
	case "cap":
		switch x := args[0].(type) {
		case Array:
			return int64(len(x))
		case *Value:
			return int64(len((*x).(Array)))
		case []Value:
			return int64(cap(x))
		case *Chan:
			return int64(x.cap)
		}
	case "recover":
		return in.doRecover(caller)
	case "ssa:wrapnilchk":
		if p, ok := args[0].(*Value); ok && p == nil {
			in.rtPanic("value method called using nil pointer")
		}
		return args[0]
	case "min", "max":
		r := args[0]
		for _, a := range args[1:] {
			var less Value
			switch x := r.(type) {
			case int64:
				y, ok := a.(int64)
				if !ok {
					in.unsupported("min/max builtin on symbolic values")
				}
				less = y < x
			case uint64:
				y, ok := a.(uint64)
				if !ok {
					in.unsupported("min/max builtin on symbolic values")
				}
				less = y < x
			case string:
				y, ok := a.(string)
				if !ok {
					in.unsupported("min/max builtin on symbolic values")
				}
				less = y < x
			default:
				in.unsupported("min/max builtin on symbolic values")
			}
			if less.(bool) == (fn.Name() == "min") {
				r = a
			}
		}
		return r
	}
	panic("unknown builtin " + fn.Name())
}

func (in *Interp) lookupFunc(pkgPath, name string) *ssa.Function {
	p := in.prog.ImportedPackage(pkgPath)
	if p == nil {
		panic("package not loaded: " + pkgPath)
	}
	f := p.Func(name)
	if f == nil {
		panic("func not found: " + pkgPath + "." + name)
	}
	return f
}

func shortFile(f string) string {
	if i := strings.Index(f, "/repo/"); i >= 0 {
		return f[i+6:]
	}
	if i := strings.LastIndex(f, "/src/"); i >= 0 {
		return f[i+5:]
	}
	return f
}

func anySym(args []Value) bool {
	for _, a := range args {
		switch a := a.(type) {
		case *Term, FSym, *SymStr:
			return true
		case []Value:
			for _, x := range a {
				if _, ok := x.(*Term); ok {
					return true
				}
			}
		}
	}
	return false
}

func (in *Interp) frozenWrite(what, lbl string) {
	pos := in.prog.Fset.Position(in.curPos)
	fn := ""
	if len(in.stack) > 0 {
		fn = in.stack[len(in.stack)-1].String()
	}
	// a write made inside a critical section or through sync.Map / atomic.Value is synchronised:
	// not a data race, and possibly a benign cache - the checks decide per property
	if in.lockHeld > 0 || strings.HasPrefix(what, "sync.Map") || strings.HasPrefix(what, "atomic.Value") {
		what = "synchronised " + what
	}
	in.ex.violation("frozen-write", fmt.Sprintf("%s to frozen %s in %s at %s:%d", what, lbl, fn, shortFile(pos.Filename), pos.Line), in.ex.model)
}

// freeze marks every cell reachable from v as frozen under the given label.
func (in *Interp) freeze(v Value, lbl string, seen map[interface{}]bool) {
	if in.frozen == nil {
		in.frozen = map[*Value]string{}
		in.frozenMap = map[*MapV]string{}
	}
	switch v := v.(type) {
	case *Value:
		if v == nil || seen[v] {
			return
		}
		seen[v] = true
		in.frozen[v] = lbl
		in.freezeSlots(v, lbl, seen)
	case Struct:
		for i := range v {
			in.frozen[&v[i]] = lbl
			in.freezeSlots(&v[i], lbl, seen)
		}
	case Array:
		for i := range v {
			in.frozen[&v[i]] = lbl
			in.freezeSlots(&v[i], lbl, seen)
		}
	case []Value:
		if v == nil {
			return
		}
		full := v[:cap(v)]
		if len(full) == 0 {
			return
		}
		if seen[&full[0]] {
			return
		}
		seen[&full[0]] = true
		for i := range full {
			in.frozen[&full[i]] = lbl
			in.freezeSlots(&full[i], lbl, seen)
		}
	case *MapV:
		if v == nil || seen[v] {
			return
		}
		seen[v] = true
		in.frozenMap[v] = lbl
		for i := range v.Keys {
			if !v.Dead[i] {
				in.freeze(v.Keys[i], lbl, seen)
				in.freeze(v.Vals[i], lbl, seen)
			}
		}
	case Iface:
		in.freeze(v.V, lbl, seen)
	case *Closure:
		if v == nil || seen[v] {
			return
		}
		seen[v] = true
		for _, e := range v.Env {
			in.freeze(e, lbl, seen)
		}
	case Tuple:
		for _, e := range v {
			in.freeze(e, lbl, seen)
		}
	}
}

func (in *Interp) freezeSlots(p *Value, lbl string, seen map[interface{}]bool) {
	in.freeze(*p, lbl, seen)
}

// concPtr turns a symbolic pointer into a concrete one by concretising its index.
func (in *Interp) concPtr(v Value) *Value {
	switch p := v.(type) {
	case *Value:
		return p
	case SymPtr:
		ci := in.concretize(p.idx, "address computation through symbolic index")
		return &p.cells[ci]
	}
	panic(fmt.Sprintf("concPtr of %T", v))
}

var fnNames sync.Map // *ssa.Function -> string

func fnName(fn *ssa.Function) string {
	if n, ok := fnNames.Load(fn); ok {
		return n.(string)
	}
	n := fn.String()
	fnNames.Store(fn, n)
	return n
}

var rangeOrdinals sync.Map // *ssa.Function -> map[*ssa.Range]int

// mapRangeOrdinal: index of instr among the range-over-map instructions of its function, in
// source order.
func mapRangeOrdinal(instr *ssa.Range) int {
	fn := instr.Parent()
	if m, ok := rangeOrdinals.Load(fn); ok {
		return m.(map[*ssa.Range]int)[instr]
	}
	var rs []*ssa.Range
	for _, b := range fn.Blocks {
		for _, ins := range b.Instrs {
			if r, ok := ins.(*ssa.Range); ok {
				if _, isMap := r.X.Type().Underlying().(*types.Map); isMap {
					rs = append(rs, r)
				}
			}
		}
	}
	sort.Slice(rs, func(i, j int) bool { return rs[i].Pos() < rs[j].Pos() })
	m := map[*ssa.Range]int{}
	for i, r := range rs {
		m[r] = i
	}
	rangeOrdinals.Store(fn, m)
	return m[instr]
}

// mapOrderMatches: "" none; "all"; "func:NAME#K" the K-th map range of function NAME;
// "func:NAME" all of them; otherwise a substring of "file:line".
func (in *Interp) mapOrderMatches(site string, instr *ssa.Range) bool {
	spec := in.mapOrder
	switch {
	case spec == "":
		return false
	case spec == "all":
		return true
	case strings.HasPrefix(spec, "func:"):
		spec = spec[5:]
		name, k := spec, -1
		if i := strings.IndexByte(spec, '#'); i >= 0 {
			name = spec[:i]
			k, _ = strconv.Atoi(spec[i+1:])
		}
		if instr.Parent().Name() != name {
			return false
		}
		return k < 0 || mapRangeOrdinal(instr) == k
	}
	return strings.Contains(site, spec)
}
