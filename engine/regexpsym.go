package main

// Symbolic execution of regular expressions: a backtracking matcher over the syntax tree of the
// (always concrete) pattern and a subject whose bytes may be symbolic terms. Backtracking order is
// Go's leftmost-first semantics (Perl syntax, non-POSIX). A test of a symbolic byte against a
// literal or a class is an ordinary branch of the path; a subject byte that may be non-ASCII
// where a single rune has to be consumed aborts the path as unsupported (runes are decoded only
// from concrete bytes). Validated against package regexp by `gosym -selftest`.

import (
	"fmt"
	"regexp"
	"regexp/syntax"
	"strconv"
	"unicode/utf8"
)

type reMatcher struct {
	in    *Interp
	sub   []Value
	ncap  int
	steps int
}

type reUnsupported struct{ why string }

func (m *reMatcher) fail(why string) { panic(reUnsupported{why}) }

// byteIs returns whether subject byte i satisfies pred (given as a list of inclusive ranges over
// 0..255), branching when the byte is symbolic.
func (m *reMatcher) byteIn(i int, ranges [][2]byte) bool {
	switch b := m.sub[i].(type) {
	case uint64:
		for _, r := range ranges {
			if byte(b) >= r[0] && byte(b) <= r[1] {
				return true
			}
		}
		return false
	case *Term:
		cond := BoolConst(false)
		for _, r := range ranges {
			if r[0] == r[1] {
				cond = Or(cond, Eq(b, Const(8, uint64(r[0]))))
			} else {
				cond = Or(cond, And(bvCmp("bvule", Const(8, uint64(r[0])), b), bvCmp("bvule", b, Const(8, uint64(r[1])))))
			}
		}
		return m.in.branch(simpBoolTerm(cond))
	}
	m.fail(fmt.Sprintf("subject byte of type %T", m.sub[i]))
	return false
}

func simpBoolTerm(t *Term) *Term { return t }

// runeAt decodes the rune at i. For an ASCII (or possibly-ASCII symbolic) byte the width is 1 and
// r = -1 means "symbolic ASCII byte"; a symbolic byte that may be >= 0x80 makes the path
// unsupported; concrete non-ASCII bytes are decoded as Go does (invalid => U+FFFD, width 1).
func (m *reMatcher) runeAt(i int) (r rune, w int) {
	switch b := m.sub[i].(type) {
	case uint64:
		if b < 0x80 {
			return rune(b), 1
		}
		var buf []byte
		for j := i; j < len(m.sub) && j < i+4; j++ {
			c, ok := m.sub[j].(uint64)
			if !ok {
				if m.in.branch(bvCmp("bvuge", m.sub[j].(*Term), Const(8, 0x80))) {
					m.fail("symbolic continuation byte of a multi-byte character in a regexp subject")
				}
				break
			}
			buf = append(buf, byte(c))
		}
		return utf8.DecodeRune(buf)
	case *Term:
		if m.in.branch(bvCmp("bvuge", b, Const(8, 0x80))) {
			m.fail("symbolic non-ASCII byte in a regexp subject")
		}
		return -1, 1
	}
	m.fail("subject byte")
	return 0, 0
}

// classMatch tests the character at i against a rune class (pairs lo,hi). Returns width (0 = no match).
func (m *reMatcher) classMatch(i int, class []rune, fold bool) int {
	if i >= len(m.sub) {
		return 0
	}
	r, w := m.runeAt(i)
	if r >= 0 {
		for k := 0; k+1 < len(class); k += 2 {
			if r >= class[k] && r <= class[k+1] {
				return w
			}
		}
		return 0
	}
	// symbolic ASCII byte
	var rs [][2]byte
	for k := 0; k+1 < len(class); k += 2 {
		lo, hi := class[k], class[k+1]
		if lo > 0x7f {
			continue
		}
		if hi > 0x7f {
			hi = 0x7f
		}
		rs = append(rs, [2]byte{byte(lo), byte(hi)})
	}
	if m.byteIn(i, rs) {
		return 1
	}
	return 0
}

func isWordByte(b byte) bool {
	return b == '_' || b >= '0' && b <= '9' || b >= 'a' && b <= 'z' || b >= 'A' && b <= 'Z'
}

func (m *reMatcher) wordAt(i int) bool {
	if i < 0 || i >= len(m.sub) {
		return false
	}
	return m.byteIn(i, [][2]byte{{'0', '9'}, {'A', 'Z'}, {'_', '_'}, {'a', 'z'}})
}

// match node re at position pos; on success call k with the end position.
func (m *reMatcher) match(re *syntax.Regexp, pos int, caps []int, k func(int, []int) bool) bool {
	m.steps++
	if m.steps > 200000 {
		m.fail("regexp matcher step bound")
	}
	m.in.steps++
	switch re.Op {
	case syntax.OpEmptyMatch:
		return k(pos, caps)
	case syntax.OpNoMatch:
		return false
	case syntax.OpLiteral:
		p := pos
		for _, r := range re.Rune {
			if p >= len(m.sub) {
				return false
			}
			if re.Flags&syntax.FoldCase != 0 {
				class := []rune{r, r}
				for f := simpleFold(r); f != r; f = simpleFold(f) {
					class = append(class, f, f)
				}
				w := m.classMatch(p, class, false)
				if w == 0 {
					return false
				}
				p += w
				continue
			}
			w := m.classMatch(p, []rune{r, r}, false)
			if w == 0 {
				return false
			}
			p += w
		}
		return k(p, caps)
	case syntax.OpCharClass:
		w := m.classMatch(pos, re.Rune, false)
		if w == 0 {
			return false
		}
		return k(pos+w, caps)
	case syntax.OpAnyChar:
		w := m.classMatch(pos, []rune{0, utf8.MaxRune}, false)
		if w == 0 {
			return false
		}
		return k(pos+w, caps)
	case syntax.OpAnyCharNotNL:
		w := m.classMatch(pos, []rune{0, '\n' - 1, '\n' + 1, utf8.MaxRune}, false)
		if w == 0 {
			return false
		}
		return k(pos+w, caps)
	case syntax.OpBeginText:
		if pos != 0 {
			return false
		}
		return k(pos, caps)
	case syntax.OpEndText:
		if pos != len(m.sub) {
			return false
		}
		return k(pos, caps)
	case syntax.OpBeginLine:
		if pos != 0 && !m.byteIn(pos-1, [][2]byte{{'\n', '\n'}}) {
			return false
		}
		return k(pos, caps)
	case syntax.OpEndLine:
		if pos != len(m.sub) && !m.byteIn(pos, [][2]byte{{'\n', '\n'}}) {
			return false
		}
		return k(pos, caps)
	case syntax.OpWordBoundary, syntax.OpNoWordBoundary:
		b := m.wordAt(pos-1) != m.wordAt(pos)
		if b != (re.Op == syntax.OpWordBoundary) {
			return false
		}
		return k(pos, caps)
	case syntax.OpCapture:
		idx := re.Cap
		return m.match(re.Sub[0], pos, caps, func(end int, c []int) bool {
			nc := append([]int(nil), c...)
			nc[2*idx], nc[2*idx+1] = pos, end
			return k(end, nc)
		})
	case syntax.OpConcat:
		var seq func(i, p int, c []int) bool
		seq = func(i, p int, c []int) bool {
			if i == len(re.Sub) {
				return k(p, c)
			}
			return m.match(re.Sub[i], p, c, func(e int, c2 []int) bool { return seq(i+1, e, c2) })
		}
		return seq(0, pos, caps)
	case syntax.OpAlternate:
		for _, s := range re.Sub {
			if m.match(s, pos, caps, k) {
				return true
			}
		}
		return false
	case syntax.OpQuest:
		return m.repeat(re.Sub[0], 0, 1, re.Flags&syntax.NonGreedy != 0, pos, caps, k)
	case syntax.OpStar:
		return m.repeat(re.Sub[0], 0, -1, re.Flags&syntax.NonGreedy != 0, pos, caps, k)
	case syntax.OpPlus:
		return m.repeat(re.Sub[0], 1, -1, re.Flags&syntax.NonGreedy != 0, pos, caps, k)
	case syntax.OpRepeat:
		return m.repeat(re.Sub[0], re.Min, re.Max, re.Flags&syntax.NonGreedy != 0, pos, caps, k)
	}
	m.fail("regexp operator " + re.Op.String())
	return false
}

func (m *reMatcher) repeat(sub *syntax.Regexp, min, max int, lazy bool, pos int, caps []int, k func(int, []int) bool) bool {
	var rep func(n, p int, c []int) bool
	rep = func(n, p int, c []int) bool {
		more := func() bool {
			if max >= 0 && n >= max {
				return false
			}
			return m.match(sub, p, c, func(e int, c2 []int) bool {
				if e == p && n >= min {
					return false // an empty iteration makes no progress
				}
				return rep(n+1, e, c2)
			})
		}
		if n < min {
			return more()
		}
		if lazy {
			return k(p, c) || more()
		}
		return more() || k(p, c)
	}
	return rep(0, pos, caps)
}

func simpleFold(r rune) rune {
	// ASCII only (the patterns of the code under test are ASCII)
	switch {
	case r >= 'a' && r <= 'z':
		return r - 32
	case r >= 'A' && r <= 'Z':
		return r + 32
	}
	return r
}

// find returns the capture index vector of the leftmost-first match starting at or after from
// (nil if none).
func (m *reMatcher) find(re *syntax.Regexp, from int) []int {
	for start := from; start <= len(m.sub); start++ {
		caps := make([]int, 2*(m.ncap+1))
		for i := range caps {
			caps[i] = -1
		}
		var res []int
		if m.match(re, start, caps, func(end int, c []int) bool {
			res = append([]int(nil), c...)
			res[0], res[1] = start, end
			return true
		}) {
			return res
		}
		if start < len(m.sub) {
			// the search moves on by one character
			if _, w := m.runeAtNoFail(start); w > 1 {
				start += w - 1
			}
		}
	}
	return nil
}

func (m *reMatcher) runeAtNoFail(i int) (rune, int) {
	if b, ok := m.sub[i].(uint64); ok && b >= 0x80 {
		return m.runeAt(i)
	}
	return 0, 1
}

// symRegexp executes method of re on a (partly) symbolic subject. ok=false: not handled.
func (in *Interp) symRegexp(re *regexp.Regexp, method string, args []Value) (res Value, ok bool) {
	parsed, err := syntax.Parse(re.String(), syntax.Perl)
	if err != nil {
		return nil, false
	}
	parsed = parsed.Simplify()
	subject := func(v Value) []Value {
		switch x := v.(type) {
		case string, *SymStr:
			return strBytes(x)
		case []Value:
			return x
		}
		return nil
	}
	defer func() {
		if r := recover(); r != nil {
			if u, isU := r.(reUnsupported); isU {
				in.unsupported("regexp " + strconv.Quote(re.String()) + ": " + u.why)
			}
			panic(r)
		}
	}()
	m := &reMatcher{in: in, ncap: re.NumSubexp()}
	ints := func(xs []int) Value {
		if xs == nil {
			return []Value(nil)
		}
		out := make([]Value, len(xs))
		for i, x := range xs {
			out[i] = int64(x)
		}
		return out
	}
	switch method {
	case "MatchString", "Match":
		m.sub = subject(args[0])
		return m.find(parsed, 0) != nil, true
	case "FindStringIndex", "FindIndex":
		m.sub = subject(args[0])
		r := m.find(parsed, 0)
		if r == nil {
			return []Value(nil), true
		}
		return ints(r[:2]), true
	case "FindStringSubmatchIndex", "FindSubmatchIndex":
		m.sub = subject(args[0])
		return ints(m.find(parsed, 0)), true
	case "FindAllStringIndex", "FindAllIndex":
		m.sub = subject(args[0])
		n, isInt := args[1].(int64)
		if !isInt {
			return nil, false
		}
		var all []Value
		in.reEach(m, parsed, func(c []int) bool {
			all = append(all, ints(c[:2]))
			return n < 0 || int64(len(all)) < n
		})
		if all == nil {
			return []Value(nil), true
		}
		return all, true
	case "ReplaceAllString":
		m.sub = subject(args[0])
		repl, isStr := args[1].(string)
		if !isStr {
			return nil, false
		}
		out := in.reReplace(m, parsed, repl)
		return mkStr(out), true
	}
	return nil, false
}

// width of the character at pos (0 at the end of the subject).
func (m *reMatcher) widthAt(pos int) int {
	if pos >= len(m.sub) {
		return 0
	}
	_, w := m.runeAt(pos)
	return w
}

// reEach visits the successive matches exactly as regexp.(*Regexp).allMatches does.
func (in *Interp) reEach(m *reMatcher, re *syntax.Regexp, visit func([]int) bool) {
	end := len(m.sub)
	for pos, prevMatchEnd := 0, -1; pos <= end; {
		c := m.find(re, pos)
		if c == nil {
			return
		}
		accept := true
		if c[1] == pos {
			// an empty match at the search position
			if c[0] == prevMatchEnd {
				accept = false // not right after a previous match
			}
			if w := m.widthAt(pos); w > 0 {
				pos += w
			} else {
				pos = end + 1
			}
		} else {
			pos = c[1]
		}
		prevMatchEnd = c[1]
		if accept && !visit(c) {
			return
		}
	}
}

// reReplace follows regexp.(*Regexp).replaceAll.
func (in *Interp) reReplace(m *reMatcher, re *syntax.Regexp, repl string) []Value {
	var out []Value
	lastMatchEnd, searchPos := 0, 0
	for searchPos <= len(m.sub) {
		a := m.find(re, searchPos)
		if a == nil {
			break
		}
		out = append(out, m.sub[lastMatchEnd:a[0]]...)
		if a[1] > lastMatchEnd || a[0] == 0 {
			out = append(out, m.expand(repl, a)...)
		}
		lastMatchEnd = a[1]
		if a[1] > searchPos {
			// (a match consumes whole characters, so the character at searchPos ends at or before a[1])
			searchPos = a[1]
		} else {
			w := m.widthAt(searchPos)
			if searchPos+w > a[1] {
				searchPos += w
			} else if searchPos+1 > a[1] {
				searchPos++
			} else {
				searchPos = a[1]
			}
		}
	}
	return append(out, m.sub[lastMatchEnd:]...)
}

// expand implements the $1 / ${1} template syntax of Regexp.Expand for numbered groups.
func (m *reMatcher) expand(tmpl string, c []int) []Value {
	var out []Value
	for i := 0; i < len(tmpl); i++ {
		ch := tmpl[i]
		if ch != '$' || i+1 >= len(tmpl) {
			out = append(out, uint64(ch))
			continue
		}
		if tmpl[i+1] == '$' {
			out = append(out, uint64('$'))
			i++
			continue
		}
		j := i + 1
		brace := tmpl[j] == '{'
		if brace {
			j++
		}
		st := j
		for j < len(tmpl) && (tmpl[j] >= '0' && tmpl[j] <= '9' || tmpl[j] >= 'a' && tmpl[j] <= 'z' || tmpl[j] >= 'A' && tmpl[j] <= 'Z' || tmpl[j] == '_') {
			j++
		}
		name := tmpl[st:j]
		if brace {
			if j >= len(tmpl) || tmpl[j] != '}' {
				out = append(out, uint64(ch)) // malformed: literal $
				continue
			}
			j++
		}
		if name == "" {
			out = append(out, uint64(ch))
			continue
		}
		n, err := strconv.Atoi(name)
		if err != nil {
			m.fail("named group in a replacement template")
		}
		if 2*n+1 < len(c) && c[2*n] >= 0 {
			out = append(out, m.sub[c[2*n]:c[2*n+1]]...)
		}
		i = j - 1
	}
	return out
}

// selfCheckRegexp compares the matcher with package regexp on concrete subjects.
func selfCheckRegexp() error {
	pats := []string{`\r\n|\r|\n`, `^_+|_+$`, `__+`, `([a-zA-Z])([A-Z][a-z])`, `([a-zA-Z])([0-9])`, `([0-9])([a-zA-Z])`, `{[A-Z0-9_]+}`,
		`</?[a-zA-Z0-9]+[^>]*?>`, `\sphname="([^"]*)"`, `%25([0-9A-Fa-f]{2})`, `a*?b|ab*`, `(a|ab)(c|bcd)(d*)`, `\bx\b`, `(?i)ab`, `x{2,3}`, `^$`, `.`, `[^a]`, `a*`}
	alpha := []string{"a", "b", "A", "_", "1", "<", ">", "/", " ", "\"", "x", "%", "\n", "\r", "é", "{", "}"}
	in := &Interp{}
	for _, p := range pats {
		re := regexp.MustCompile(p)
		var rec func(s string, n int) error
		rec = func(s string, n int) error {
			want := fmt.Sprint(re.FindStringSubmatchIndex(s))
			gotV, ok := in.symRegexp(re, "FindStringSubmatchIndex", []Value{s})
			var got []int
			if xs, isL := gotV.([]Value); isL && xs != nil {
				for _, x := range xs {
					got = append(got, int(x.(int64)))
				}
			}
			if !ok || fmt.Sprint(got) != want {
				return fmt.Errorf("regexp self check: %q on %q: FindStringSubmatchIndex %v, want %s", p, s, got, want)
			}
			for _, repl := range []string{"<br>", "${1}_${2}", "%$1", ""} {
				w := re.ReplaceAllString(s, repl)
				g, ok := in.symRegexp(re, "ReplaceAllString", []Value{s, repl})
				if !ok || g != Value(w) {
					return fmt.Errorf("regexp self check: %q on %q with %q: ReplaceAllString %q, want %q", p, s, repl, g, w)
				}
			}
			wa := fmt.Sprint(re.FindAllStringIndex(s, -1))
			ga, _ := in.symRegexp(re, "FindAllStringIndex", []Value{s, int64(-1)})
			var gl [][]int
			if xs, isL := ga.([]Value); isL {
				for _, x := range xs {
					pr := x.([]Value)
					gl = append(gl, []int{int(pr[0].(int64)), int(pr[1].(int64))})
				}
			}
			if fmt.Sprint(gl) != wa {
				return fmt.Errorf("regexp self check: %q on %q: FindAllStringIndex %v, want %s", p, s, gl, wa)
			}
			if n == 0 {
				return nil
			}
			for _, a := range alpha {
				if err := rec(s+a, n-1); err != nil {
					return err
				}
			}
			return nil
		}
		if err := rec("", selfRegexpDepth); err != nil {
			return err
		}
	}
	return nil
}

var selfRegexpDepth = 3
