package main

import "go/types"

// errors.Is / errors.As / errors.Unwrap over the engine's interface values (the real functions go
// through internal/reflectlite, which the interpreter does not execute). Unwrap chains of single
// errors are followed by calling the Unwrap method of the dynamic type in the interpreter;
// Unwrap() []error, Is and As methods of the dynamic type are honoured as the real functions do.

func init() {
	intrinsics["errors.Unwrap"] = func(in *Interp, fr *frame, a []Value) Value {
		e, _ := a[0].(Iface)
		if e.T == nil {
			return Iface{}
		}
		return in.errUnwrap(fr, e)
	}
	intrinsics["errors.Is"] = func(in *Interp, fr *frame, a []Value) Value {
		e, _ := a[0].(Iface)
		t, _ := a[1].(Iface)
		return in.errIs(fr, e, t, 0)
	}
	intrinsics["errors.As"] = func(in *Interp, fr *frame, a []Value) Value {
		e, _ := a[0].(Iface)
		t, _ := a[1].(Iface)
		if t.T == nil {
			in.rtPanic("errors: target cannot be nil")
		}
		pt, ok := t.T.Underlying().(*types.Pointer)
		cell, _ := t.V.(*Value)
		if !ok || cell == nil {
			in.rtPanic("errors: target must be a non-nil pointer")
		}
		return in.errAs(fr, e, pt.Elem(), cell, 0)
	}
}

// errMethod returns the method name of the dynamic type of e when it has the given shape.
func (in *Interp) errMethod(e Iface, name string, params, results int) *ssaFunc {
	f := in.findMethod(e.T, name)
	if f == nil || f.Signature.Params().Len() != params || f.Signature.Results().Len() != results {
		return nil
	}
	return f
}

func (in *Interp) errUnwrap(fr *frame, e Iface) Value {
	f := in.errMethod(e, "Unwrap", 0, 1)
	if f == nil {
		return Iface{}
	}
	if _, isSlice := f.Signature.Results().At(0).Type().Underlying().(*types.Slice); isSlice {
		return Iface{}
	}
	r, _ := in.call(fr, f, []Value{e.V}).(Iface)
	return r
}

func (in *Interp) errChildren(fr *frame, e Iface) []Iface {
	f := in.errMethod(e, "Unwrap", 0, 1)
	if f == nil {
		return nil
	}
	res := in.call(fr, f, []Value{e.V})
	if _, isSlice := f.Signature.Results().At(0).Type().Underlying().(*types.Slice); isSlice {
		in.unsupported("errors: Unwrap() []error")
	}
	if r, _ := res.(Iface); r.T != nil {
		return []Iface{r}
	}
	return nil
}

func (in *Interp) errIs(fr *frame, e, target Iface, depth int) bool {
	if depth > 64 {
		in.unsupported("errors.Is: unwrap chain longer than 64")
	}
	if e.T == nil || target.T == nil {
		return e.T == nil && target.T == nil
	}
	if types.Identical(e.T, target.T) && types.Comparable(e.T) {
		switch c := in.eqVal(e.T, e.V, target.V).(type) {
		case bool:
			if c {
				return true
			}
		case *Term:
			if in.branch(c) {
				return true
			}
		}
	}
	if f := in.errMethod(e, "Is", 1, 1); f != nil {
		if b, ok := in.call(fr, f, []Value{e.V, target}).(bool); ok && b {
			return true
		}
	}
	for _, c := range in.errChildren(fr, e) {
		if in.errIs(fr, c, target, depth+1) {
			return true
		}
	}
	return false
}

func (in *Interp) errAs(fr *frame, e Iface, elem types.Type, cell *Value, depth int) bool {
	if depth > 64 {
		in.unsupported("errors.As: unwrap chain longer than 64")
	}
	if e.T == nil {
		return false
	}
	if it, isI := elem.Underlying().(*types.Interface); isI {
		if types.Implements(e.T, it) {
			in.store(cell, e)
			return true
		}
	} else if types.Identical(e.T, elem) {
		in.store(cell, copyVal(e.V))
		return true
	}
	if f := in.errMethod(e, "As", 1, 1); f != nil {
		if b, ok := in.call(fr, f, []Value{e.V, Iface{types.NewPointer(elem), cell}}).(bool); ok && b {
			return true
		}
	}
	for _, c := range in.errChildren(fr, e) {
		if in.errAs(fr, c, elem, cell, depth+1) {
			return true
		}
	}
	return false
}
