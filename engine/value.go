package main

import (
	"fmt"
	"go/types"
	"math"
	"strings"
)

type Value = interface{}

// Concrete scalars: bool, int64 (signed), uint64 (unsigned), float64, string.
// Symbolic scalars: *Term (Bool or BV); FSym (float64 as BV64 term).
type FSym struct{ T *Term }

// SymStr is a string of concrete length whose bytes may be symbolic.
type SymStr struct{ B []Value } // each uint64 or *Term(BV8)

type Struct []Value
type Array []Value
type Tuple []Value

type Iface struct {
	T types.Type
	V Value
}

type Closure struct {
	Fn  *ssaFunc
	Env []Value
}

type MapV struct {
	KT   types.Type
	Keys []Value
	Vals []Value
	Dead []bool
	Idx  map[interface{}]int
	N    int
}

// ReflVal is the engine's stand-in for a reflect.Value (only Pointer() is supported).
type ReflVal struct{ V Value }

type bad struct{}

func isSym(v Value) bool {
	switch v := v.(type) {
	case *Term, FSym:
		return true
	case *SymStr:
		_ = v
		return true
	}
	return false
}

// hashKey returns a comparable host key for a concrete map key, or nil,false if symbolic.
func hashKey(v Value) (interface{}, bool) {
	switch v := v.(type) {
	case bool, int64, uint64, float64, string, *Value, *MapV:
		return v, true
	case Iface:
		if v.T == nil {
			return "nil-iface", true
		}
		k, ok := hashKey(v.V)
		if !ok {
			return nil, false
		}
		return [2]interface{}{v.T.String(), k}, true
	case Struct:
		var sb strings.Builder
		for _, f := range v {
			k, ok := hashKey(f)
			if !ok {
				return nil, false
			}
			fmt.Fprintf(&sb, "%T:%v;", k, k)
		}
		return sb.String(), true
	case Array:
		return hashKey(Struct(v))
	case nil:
		return "nil", true
	}
	return nil, false
}

func newMap(kt types.Type) *MapV { return &MapV{KT: kt, Idx: map[interface{}]int{}} }

func zero(t types.Type) Value {
	switch t := t.(type) {
	case *types.Basic:
		if t.Kind() == types.UntypedNil {
			panic("untyped nil has no zero value")
		}
		if t.Info()&types.IsUntyped != 0 {
			t = types.Default(t).(*types.Basic)
		}
		switch {
		case t.Info()&types.IsBoolean != 0:
			return false
		case t.Info()&types.IsUnsigned != 0:
			return uint64(0)
		case t.Info()&types.IsInteger != 0:
			return int64(0)
		case t.Info()&types.IsFloat != 0:
			return float64(0)
		case t.Info()&types.IsString != 0:
			return ""
		case t.Kind() == types.UnsafePointer:
			return (*Value)(nil)
		}
		panic(fmt.Sprint("zero for unexpected type:", t))
	case *types.Pointer:
		return (*Value)(nil)
	case *types.Array:
		a := make(Array, t.Len())
		for i := range a {
			a[i] = zero(t.Elem())
		}
		return a
	case *types.Named, *types.Alias:
		return zero(t.Underlying())
	case *types.Interface:
		return Iface{}
	case *types.Slice:
		return []Value(nil)
	case *types.Struct:
		s := make(Struct, t.NumFields())
		for i := range s {
			s[i] = zero(t.Field(i).Type())
		}
		return s
	case *types.Tuple:
		if t.Len() == 1 {
			return zero(t.At(0).Type())
		}
		s := make(Tuple, t.Len())
		for i := range s {
			s[i] = zero(t.At(i).Type())
		}
		return s
	case *types.Chan:
		return (*Chan)(nil)
	case *types.Map:
		return (*MapV)(nil)
	case *types.Signature:
		return (*ssaFunc)(nil)
	}
	panic(fmt.Sprint("zero: unexpected ", t))
}

func copyVal(v Value) Value {
	switch v := v.(type) {
	case Struct:
		c := make(Struct, len(v))
		for i := range v {
			c[i] = copyVal(v[i])
		}
		return c
	case Array:
		c := make(Array, len(v))
		for i := range v {
			c[i] = copyVal(v[i])
		}
		return c
	}
	return v
}

// strLen returns the (concrete) length of a string value.
func strLen(v Value) int {
	switch v := v.(type) {
	case string:
		return len(v)
	case *SymStr:
		return len(v.B)
	}
	panic(fmt.Sprintf("strLen of %T", v))
}

func strBytes(v Value) []Value {
	switch v := v.(type) {
	case string:
		b := make([]Value, len(v))
		for i := 0; i < len(v); i++ {
			b[i] = uint64(v[i])
		}
		return b
	case *SymStr:
		return v.B
	}
	panic(fmt.Sprintf("strBytes of %T", v))
}

// mkStr builds a string value from bytes, concrete if possible.
func mkStr(b []Value) Value {
	conc := true
	for _, x := range b {
		if _, ok := x.(uint64); !ok {
			conc = false
			break
		}
	}
	if conc {
		bs := make([]byte, len(b))
		for i, x := range b {
			bs[i] = byte(x.(uint64))
		}
		return string(bs)
	}
	c := make([]Value, len(b))
	copy(c, b)
	return &SymStr{c}
}

func byteTerm(v Value) *Term {
	switch v := v.(type) {
	case uint64:
		return Const(8, v)
	case *Term:
		return v
	}
	panic(fmt.Sprintf("byteTerm of %T", v))
}

// concString renders a value as a concrete string under a model (for observations/messages).
func concString(v Value, m map[string]uint64, memo map[*Term]uint64) string {
	switch v := v.(type) {
	case string:
		return v
	case *SymStr:
		b := make([]byte, len(v.B))
		for i, x := range v.B {
			switch x := x.(type) {
			case uint64:
				b[i] = byte(x)
			case *Term:
				b[i] = byte(evalTerm(x, m, memo))
			}
		}
		return string(b)
	case int64:
		return fmt.Sprint(v)
	case uint64:
		return fmt.Sprint(v)
	case bool:
		return fmt.Sprint(v)
	case float64:
		return fmt.Sprint(math.Float64bits(v))
	case FSym:
		return fmt.Sprint(evalTerm(v.T, m, memo))
	case *Term:
		x := evalTerm(v, m, memo)
		if v.S.K == SBool {
			return fmt.Sprint(x == 1)
		}
		return fmt.Sprint(sext(x, v.S.W))
	case []Value:
		return concString(mkStr(v), m, memo)
	case Iface:
		return concString(v.V, m, memo)
	}
	return fmt.Sprintf("<%T>", v)
}
