package main

import (
	"fmt"
	"go/token"
	"go/types"
	"math"
)

type kind int

const (
	kBool kind = iota
	kInt
	kUint
	kFloat
	kString
	kOther
)

func basicOf(t types.Type) (kind, int) {
	b, ok := t.Underlying().(*types.Basic)
	if !ok {
		return kOther, 0
	}
	if b.Info()&types.IsUntyped != 0 {
		b = types.Default(b).(*types.Basic)
	}
	switch b.Kind() {
	case types.Bool:
		return kBool, 1
	case types.Int, types.Int64:
		return kInt, 64
	case types.Int8:
		return kInt, 8
	case types.Int16:
		return kInt, 16
	case types.Int32:
		return kInt, 32
	case types.Uint, types.Uint64, types.Uintptr:
		return kUint, 64
	case types.Uint8:
		return kUint, 8
	case types.Uint16:
		return kUint, 16
	case types.Uint32:
		return kUint, 32
	case types.Float64:
		return kFloat, 64
	case types.Float32:
		return kFloat, 32
	case types.String:
		return kString, 0
	}
	return kOther, 0
}

func normInt(k kind, w int, v uint64) Value {
	if k == kInt {
		return sext(v&mask(w), w)
	}
	return v & mask(w)
}

func rawBits(v Value) uint64 {
	switch v := v.(type) {
	case int64:
		return uint64(v)
	case uint64:
		return v
	case bool:
		if v {
			return 1
		}
		return 0
	}
	panic(fmt.Sprintf("rawBits of %T", v))
}

// intTerm converts an integer value of the given width to a term.
func intTerm(v Value, w int) *Term {
	switch v := v.(type) {
	case *Term:
		if v.S.K != SBV || v.S.W != w {
			panic(fmt.Sprintf("intTerm: width mismatch %v vs %d", v.S, w))
		}
		return v
	case int64:
		return Const(w, uint64(v))
	case uint64:
		return Const(w, v)
	}
	panic(fmt.Sprintf("intTerm of %T", v))
}

func boolTerm(v Value) *Term {
	switch v := v.(type) {
	case *Term:
		return v
	case bool:
		return BoolConst(v)
	}
	panic(fmt.Sprintf("boolTerm of %T", v))
}

func floatTerm(v Value) *Term {
	switch v := v.(type) {
	case FSym:
		return v.T
	case float64:
		return Const(64, math.Float64bits(v))
	}
	panic(fmt.Sprintf("floatTerm of %T", v))
}

// simp turns constant terms back into concrete values.
func simpInt(k kind, w int, t *Term) Value {
	if t.IsConst() {
		return normInt(k, w, t.C)
	}
	return t
}
func simpBool(t *Term) Value {
	if t.IsConst() {
		return t.C == 1
	}
	return t
}
func simpFloat(t *Term) Value {
	if t.IsConst() {
		return math.Float64frombits(t.C)
	}
	return FSym{t}
}

func (in *Interp) binop(op token.Token, t types.Type, x, y Value) Value {
	k, w := basicOf(t)
	switch k {
	case kInt, kUint:
		if op == token.SHL || op == token.SHR {
			return in.shift(op, k, w, x, y)
		}
		_, xs := x.(*Term)
		_, ys := y.(*Term)
		if !xs && !ys {
			return concIntOp(in, op, k, w, rawBits(x), rawBits(y))
		}
		a, b := intTerm(x, w), intTerm(y, w)
		switch op {
		case token.ADD:
			return simpInt(k, w, bvBin("bvadd", a, b))
		case token.SUB:
			return simpInt(k, w, bvBin("bvsub", a, b))
		case token.MUL:
			return simpInt(k, w, bvBin("bvmul", a, b))
		case token.QUO, token.REM:
			// division by zero check forks
			if in.branch(Eq(b, Const(w, 0))) {
				in.rtPanic("integer divide by zero")
			}
			name := map[bool]map[token.Token]string{
				true:  {token.QUO: "bvsdiv", token.REM: "bvsrem"},
				false: {token.QUO: "bvudiv", token.REM: "bvurem"},
			}[k == kInt][op]
			return simpInt(k, w, bvBin(name, a, b))
		case token.AND:
			return simpInt(k, w, bvBin("bvand", a, b))
		case token.OR:
			return simpInt(k, w, bvBin("bvor", a, b))
		case token.XOR:
			return simpInt(k, w, bvBin("bvxor", a, b))
		case token.AND_NOT:
			return simpInt(k, w, bvBin("bvand", a, BvNot(b)))
		case token.EQL:
			return simpBool(Eq(a, b))
		case token.NEQ:
			return simpBool(Not(Eq(a, b)))
		case token.LSS:
			return simpBool(bvCmp(cmpName(k, "lt"), a, b))
		case token.LEQ:
			return simpBool(bvCmp(cmpName(k, "le"), a, b))
		case token.GTR:
			return simpBool(bvCmp(cmpName(k, "lt"), b, a))
		case token.GEQ:
			return simpBool(bvCmp(cmpName(k, "le"), b, a))
		}
	case kBool:
		a, b := boolTerm(x), boolTerm(y)
		switch op {
		case token.EQL:
			return simpBool(Eq(a, b))
		case token.NEQ:
			return simpBool(Not(Eq(a, b)))
		}
	case kFloat:
		if w != 64 {
			xf, xok := x.(float64)
			yf, yok := y.(float64)
			if !xok || !yok {
				in.unsupported("symbolic float32")
			}
			x, y = xf, yf
		}
		a, b := floatTerm(x), floatTerm(y)
		switch op {
		case token.ADD:
			return simpFloat(fpBin("fp.add", a, b))
		case token.SUB:
			return simpFloat(fpBin("fp.sub", a, b))
		case token.MUL:
			return simpFloat(fpBin("fp.mul", a, b))
		case token.QUO:
			return simpFloat(fpBin("fp.div", a, b))
		case token.EQL:
			return simpBool(fpCmp("fp.eq", a, b))
		case token.NEQ:
			return simpBool(Not(fpCmp("fp.eq", a, b)))
		case token.LSS:
			return simpBool(fpCmp("fp.lt", a, b))
		case token.LEQ:
			return simpBool(fpCmp("fp.leq", a, b))
		case token.GTR:
			return simpBool(fpCmp("fp.gt", a, b))
		case token.GEQ:
			return simpBool(fpCmp("fp.geq", a, b))
		}
	case kString:
		switch op {
		case token.ADD:
			xs, xok := x.(string)
			ys, yok := y.(string)
			if xok && yok {
				return xs + ys
			}
			return mkStr(append(append([]Value{}, strBytes(x)...), strBytes(y)...))
		case token.EQL:
			return in.strEq(x, y)
		case token.NEQ:
			return notV(in.strEq(x, y))
		case token.LSS:
			return in.strLess(x, y, false)
		case token.LEQ:
			return in.strLess(x, y, true)
		case token.GTR:
			return in.strLess(y, x, false)
		case token.GEQ:
			return in.strLess(y, x, true)
		}
	default:
		switch op {
		case token.EQL:
			return in.eqVal(t, x, y)
		case token.NEQ:
			return notV(in.eqVal(t, x, y))
		}
	}
	panic(fmt.Sprintf("binop: unhandled %v on %v (%T, %T)", op, t, x, y))
}

func cmpName(k kind, s string) string {
	if k == kInt {
		return "bvs" + s
	}
	return "bvu" + s
}

func notV(v Value) Value {
	switch v := v.(type) {
	case bool:
		return !v
	case *Term:
		return simpBool(Not(v))
	}
	panic("notV")
}

func concIntOp(in *Interp, op token.Token, k kind, w int, x, y uint64) Value {
	sx, sy := sext(x, w), sext(y, w)
	switch op {
	case token.ADD:
		return normInt(k, w, x+y)
	case token.SUB:
		return normInt(k, w, x-y)
	case token.MUL:
		return normInt(k, w, x*y)
	case token.QUO:
		if y&mask(w) == 0 {
			in.rtPanic("integer divide by zero")
		}
		if k == kInt {
			return normInt(k, w, uint64(sx/sy))
		}
		return normInt(k, w, (x&mask(w))/(y&mask(w)))
	case token.REM:
		if y&mask(w) == 0 {
			in.rtPanic("integer divide by zero")
		}
		if k == kInt {
			return normInt(k, w, uint64(sx%sy))
		}
		return normInt(k, w, (x&mask(w))%(y&mask(w)))
	case token.AND:
		return normInt(k, w, x&y)
	case token.OR:
		return normInt(k, w, x|y)
	case token.XOR:
		return normInt(k, w, x^y)
	case token.AND_NOT:
		return normInt(k, w, x&^y)
	case token.EQL:
		return x&mask(w) == y&mask(w)
	case token.NEQ:
		return x&mask(w) != y&mask(w)
	case token.LSS:
		if k == kInt {
			return sx < sy
		}
		return x&mask(w) < y&mask(w)
	case token.LEQ:
		if k == kInt {
			return sx <= sy
		}
		return x&mask(w) <= y&mask(w)
	case token.GTR:
		if k == kInt {
			return sx > sy
		}
		return x&mask(w) > y&mask(w)
	case token.GEQ:
		if k == kInt {
			return sx >= sy
		}
		return x&mask(w) >= y&mask(w)
	}
	panic(fmt.Sprintf("concIntOp %v", op))
}

func (in *Interp) shift(op token.Token, k kind, w int, x, y Value) Value {
	// shift count: any integer type; negative count panics (ignored here for unsigned)
	var yt *Term
	switch y := y.(type) {
	case int64:
		if y < 0 {
			in.rtPanic("negative shift amount")
		}
		yy := uint64(y)
		if yy > uint64(w) {
			yy = uint64(w)
		}
		yt = Const(w, yy)
	case uint64:
		yy := y
		if yy > uint64(w) {
			yy = uint64(w)
		}
		yt = Const(w, yy)
	case *Term:
		// clamp to w, then resize
		yw := y.S.W
		big := bvCmp("bvult", Const(yw, uint64(w)), y)
		yt = Ite(big, Const(w, uint64(w)), ZExt(Extract(y, min(yw, w)-1, 0), w))
	}
	a := intTerm(x, w)
	switch op {
	case token.SHL:
		return simpInt(k, w, bvBin("bvshl", a, yt))
	default:
		if k == kInt {
			return simpInt(k, w, bvBin("bvashr", a, yt))
		}
		return simpInt(k, w, bvBin("bvlshr", a, yt))
	}
}

func (in *Interp) strEq(x, y Value) Value {
	xs, xok := x.(string)
	ys, yok := y.(string)
	if xok && yok {
		return xs == ys
	}
	if strLen(x) != strLen(y) {
		return false
	}
	xb, yb := strBytes(x), strBytes(y)
	r := BoolConst(true)
	for i := range xb {
		r = And(r, Eq(byteTerm(xb[i]), byteTerm(yb[i])))
	}
	return simpBool(r)
}

// strLess builds lexicographic comparison.
func (in *Interp) strLess(x, y Value, orEq bool) Value {
	xs, xok := x.(string)
	ys, yok := y.(string)
	if xok && yok {
		if orEq {
			return xs <= ys
		}
		return xs < ys
	}
	xb, yb := strBytes(x), strBytes(y)
	n := min(len(xb), len(yb))
	// result when all common bytes equal:
	var tail *Term
	if orEq {
		tail = BoolConst(len(xb) <= len(yb))
	} else {
		tail = BoolConst(len(xb) < len(yb))
	}
	r := tail
	for i := n - 1; i >= 0; i-- {
		a, b := byteTerm(xb[i]), byteTerm(yb[i])
		r = Ite(Eq(a, b), r, bvCmp("bvult", a, b))
	}
	return simpBool(r)
}

// eqVal compares two values of static type t.
func (in *Interp) eqVal(t types.Type, x, y Value) Value {
	switch x := x.(type) {
	case Iface:
		yi := y.(Iface)
		if x.T == nil || yi.T == nil {
			return x.T == nil && yi.T == nil
		}
		if !types.Identical(x.T, yi.T) {
			return false
		}
		return in.eqVal(x.T, x.V, yi.V)
	case Struct:
		ys := y.(Struct)
		st := t.Underlying().(*types.Struct)
		r := BoolConst(true)
		for i := range x {
			if st.Field(i).Name() == "_" {
				continue
			}
			r = And(r, boolTerm(in.eqVal(st.Field(i).Type(), x[i], ys[i])))
		}
		return simpBool(r)
	case Array:
		ya := y.(Array)
		et := t.Underlying().(*types.Array).Elem()
		r := BoolConst(true)
		for i := range x {
			r = And(r, boolTerm(in.eqVal(et, x[i], ya[i])))
		}
		return simpBool(r)
	case *Value:
		return x == y.(*Value)
	case *MapV:
		return x == y.(*MapV)
	case *Chan:
		return x == y.(*Chan)
	case []Value:
		// only comparable to nil
		return x == nil && y.([]Value) == nil
	case *ssaFunc:
		yf, _ := y.(*ssaFunc)
		return x == yf
	case *Closure:
		yc, _ := y.(*Closure)
		return x == yc
	case nil:
		return y == nil
	}
	k, _ := basicOf(t)
	if k != kOther {
		return in.binop(token.EQL, t, x, y)
	}
	panic(fmt.Sprintf("eqVal: unhandled %T (%v)", x, t))
}

func (in *Interp) unop(op token.Token, t types.Type, x Value) Value {
	k, w := basicOf(t)
	switch op {
	case token.NOT:
		return notV(x)
	case token.SUB:
		switch k {
		case kInt, kUint:
			if xt, ok := x.(*Term); ok {
				return simpInt(k, w, BvNeg(xt))
			}
			return normInt(k, w, -rawBits(x))
		case kFloat:
			return simpFloat(fpNeg(floatTerm(x)))
		}
	case token.XOR:
		if xt, ok := x.(*Term); ok {
			return simpInt(k, w, BvNot(xt))
		}
		return normInt(k, w, ^rawBits(x))
	}
	panic(fmt.Sprintf("unop %v on %T", op, x))
}

// conv implements ssa.Convert.
func (in *Interp) conv(dst, src types.Type, x Value) Value {
	ud, us := dst.Underlying(), src.Underlying()
	dk, dw := basicOf(dst)
	sk, sw := basicOf(src)
	switch {
	case (dk == kInt || dk == kUint) && (sk == kInt || sk == kUint):
		if xt, ok := x.(*Term); ok {
			var r *Term
			if dw <= sw {
				r = Extract(xt, dw-1, 0)
			} else if sk == kInt {
				r = SExt(xt, dw)
			} else {
				r = ZExt(xt, dw)
			}
			return simpInt(dk, dw, r)
		}
		if sk == kInt {
			return normInt(dk, dw, uint64(x.(int64)))
		}
		return normInt(dk, dw, x.(uint64))
	case dk == kFloat && (sk == kInt || sk == kUint):
		if xt, ok := x.(*Term); ok {
			if sk == kUint {
				in.unsupported("symbolic uint->float")
			}
			if dw != 64 {
				in.unsupported("symbolic int->float32")
			}
			return simpFloat(fpFromSInt(xt))
		}
		var f float64
		if sk == kInt {
			f = float64(x.(int64))
		} else {
			f = float64(x.(uint64))
		}
		if dw == 32 {
			f = float64(float32(f))
		}
		return f
	case dk == kFloat && sk == kFloat:
		if f, ok := x.(float64); ok {
			if dw == 32 {
				return float64(float32(f))
			}
			return f
		}
		if dw == 64 && sw == 64 {
			return x
		}
		in.unsupported("symbolic float width conversion")
	case (dk == kInt || dk == kUint) && sk == kFloat:
		f, ok := x.(float64)
		if !ok {
			if dw != 64 || dk != kInt {
				in.unsupported("symbolic float->narrow/unsigned int")
			}
			// Go leaves out-of-range conversions implementation-defined; amd64 yields MinInt64.
			t := floatTerm(x)
			inRange := And(fpCmp("fp.geq", t, Const(64, math.Float64bits(-9223372036854775808.0))), fpCmp("fp.lt", t, Const(64, math.Float64bits(9223372036854775808.0))))
			return simpInt(kInt, 64, Ite(inRange, fpToSInt(t), Const(64, 1<<63)))
		}
		if dk == kInt {
			return normInt(dk, dw, uint64(int64(f)))
		}
		return normInt(dk, dw, uint64(f))
	case dk == kString && (sk == kInt || sk == kUint):
		// string(rune)
		if xt, ok := x.(*Term); ok {
			if sw != 32 {
				xt = SExt(xt, 32)
				if sk == kUint {
					xt = ZExt(x.(*Term), 32)
				}
			}
			return mkStr(in.encodeRune(nil, simpInt(kInt, 32, xt)))
		}
		return string(rune(int64(rawBits(x))))
	case dk == kString && sk == kString:
		return x
	}
	// string <-> []byte / []rune
	if dk == kString {
		if sl, ok := us.(*types.Slice); ok {
			ek, _ := basicOf(sl.Elem())
			xs := x.([]Value)
			if ek == kUint { // []byte
				return mkStr(xs)
			}
			// []rune
			var out []Value
			for _, r := range xs {
				out = in.encodeRune(out, r)
			}
			return mkStr(out)
		}
	}
	if sl, ok := ud.(*types.Slice); ok && sk == kString {
		ek, _ := basicOf(sl.Elem())
		if ek == kUint {
			b := strBytes(x)
			c := make([]Value, len(b))
			copy(c, b)
			return c
		}
		s, ok := x.(string)
		if !ok {
			// decode rune by rune with the comparison-only model (forks on the encoded length)
			fn := in.modelFunc("verifModel_utf8_DecodeRuneInString")
			b := strBytes(x)
			var out []Value
			for i := 0; i < len(b); {
				res := in.call(nil, fn, []Value{mkStr(b[i:])}).(Tuple)
				out = append(out, res[0])
				i += in.concInt(res[1], "rune width")
			}
			return out
		}
		var out []Value
		for _, r := range s {
			out = append(out, int64(r))
		}
		return out
	}
	// pointer / unsafe conversions etc.
	if _, ok := ud.(*types.Pointer); ok {
		return x
	}
	if b, ok := ud.(*types.Basic); ok && b.Kind() == types.UnsafePointer {
		return x
	}
	if b, ok := us.(*types.Basic); ok && b.Kind() == types.UnsafePointer {
		return x
	}
	if dk == kOther && sk == kOther {
		return x
	}
	panic(fmt.Sprintf("conv: unhandled %v <- %v (%T)", dst, src, x))
}

func (in *Interp) modelFunc(name string) *ssaFunc {
	f := in.mainPkg.Func(name)
	if f == nil {
		in.unsupported("model " + name + " is not available in the harness package")
	}
	return f
}

// encodeRune appends the UTF-8 encoding of r (concrete or symbolic) to out.
func (in *Interp) encodeRune(out []Value, r Value) []Value {
	if rv, ok := r.(int64); ok {
		for _, b := range []byte(string(rune(rv))) {
			out = append(out, uint64(b))
		}
		return out
	}
	res := in.call(nil, in.modelFunc("verifModel_utf8_AppendRune"), []Value{[]Value(nil), r}).([]Value)
	return append(out, res...)
}
