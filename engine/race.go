package main

import (
	"fmt"
	"strings"
)

// Happens-before race detection inside the symbolic executor (vector clocks, FastTrack style).
// The engine runs one goroutine at a time, so no interleaving is explored; but for the execution
// it does perform it checks, for every heap cell written while tracking is on, that any two
// accesses from different goroutines of which at least one is a write are ordered by
// goroutine creation or channel communication. Under the Go memory model an unordered pair is a
// data race in every schedule that performs the same accesses.

func vcCopy(v []int) []int { return append([]int(nil), v...) }

func vcTick(v *[]int, id int) {
	for len(*v) <= id {
		*v = append(*v, 0)
	}
	(*v)[id]++
}

func vcJoin(dst *[]int, src []int) {
	for len(*dst) < len(src) {
		*dst = append(*dst, 0)
	}
	for i, x := range src {
		if x > (*dst)[i] {
			(*dst)[i] = x
		}
	}
}

func vcAt(v []int, i int) int {
	if i < len(v) {
		return v[i]
	}
	return 0
}

type shadow struct {
	wG, wC int         // last write: goroutine, its clock
	reads  map[int]int // goroutine -> clock of its last read since the last write
}

func (in *Interp) raceAccess(addr *Value, write bool) {
	if !in.raceOn || addr == nil || len(in.sched.all) < 2 {
		return
	}
	if len(in.stack) > 0 && strings.Contains(fnName(in.stack[len(in.stack)-1]), ".verif") {
		return // the machinery's own hooks (build tag verif) are not the code under test
	}
	g := in.sched.cur
	sh := in.shadows[addr]
	if sh == nil {
		sh = &shadow{wG: -1}
		in.shadows[addr] = sh
	}
	mine := vcAt(g.vc, g.id)
	if sh.wG >= 0 && sh.wG != g.id && vcAt(g.vc, sh.wG) < sh.wC {
		in.raceReport(write, true, sh.wG)
	}
	if write {
		for rg, rc := range sh.reads {
			if rg != g.id && vcAt(g.vc, rg) < rc {
				in.raceReport(true, false, rg)
			}
		}
		sh.wG, sh.wC, sh.reads = g.id, mine, nil
		return
	}
	if sh.reads == nil {
		sh.reads = map[int]int{}
	}
	sh.reads[g.id] = mine
}

func (in *Interp) raceReport(write, otherWrite bool, other int) {
	pos := in.prog.Fset.Position(in.curPos)
	fn := ""
	if len(in.stack) > 0 {
		fn = fnName(in.stack[len(in.stack)-1])
	}
	kind := map[bool]string{true: "write", false: "read"}
	in.ex.violation("race", fmt.Sprintf("data race: %s in %s at %s:%d is not ordered with a %s by goroutine %q",
		kind[write], fn, shortFile(pos.Filename), pos.Line, kind[otherWrite], in.sched.all[other].name), in.ex.model)
}

// raceMapAccess: a map is one location for the happens-before check (as for Go's race detector,
// which instruments map operations as accesses of the map header): lookups and iteration read it,
// updates and deletes write it.
func (in *Interp) raceMapAccess(m *MapV, write bool) {
	if !in.raceOn || m == nil {
		return
	}
	if in.mapCells == nil {
		in.mapCells = map[*MapV]*Value{}
	}
	c := in.mapCells[m]
	if c == nil {
		c = new(Value)
		in.mapCells[m] = c
	}
	in.raceAccess(c, write)
}
