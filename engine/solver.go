package main

import (
	"bufio"
	"fmt"
	"io"
	"os"
	"os/exec"
	"strconv"
	"strings"
	"time"
)

var QueryTimeoutMs = 10000

// solverFaultAt: when set (VERIF_SOLVER_FAULT=n), the n-th answer of every solver session is replaced
// by an error, to exercise the restart-and-ask-again path.
var solverFaultAt, _ = strconv.Atoi(os.Getenv("VERIF_SOLVER_FAULT"))

type Solver struct {
	cmd                   *exec.Cmd
	in                    io.WriteCloser
	out                   *bufio.Reader
	declared              map[string]Sort
	vars                  []string
	defined               map[int]bool
	stack                 []*Term
	TCheck, TPrep, TModel time.Duration
	Queries               int
	Time                  time.Duration
	log                   io.Writer
	// portfolio: a second solver asked when this one answers "unknown" on an assertion query
	fallbackBin  string
	fallbackArgs []string
	fallback     *Solver
	FallbackHits int
	// restart: after a solver error the session is not trusted (a lost or extra response line would
	// shift every later answer by one): the process is replaced and the query asked again
	bin      string
	args     []string
	prelude  []string
	Restarts int
}

// CheckAssert is Check for assertion queries: an "unknown" of the primary solver is retried once
// with the fallback solver (another version / another solver), whose definite answer is used.
func (s *Solver) CheckAssert(asserts []*Term) (bool, map[string]uint64, error) {
	sat, m, err := s.Check(asserts)
	if err == nil || s.fallbackBin == "" || !strings.Contains(err.Error(), "answered") {
		return sat, m, err
	}
	if s.fallback == nil {
		s.fallback = NewSolver(s.fallbackBin, s.fallbackArgs...)
		s.fallback.prelude = append(s.fallback.prelude, fmt.Sprintf("(set-option :timeout %d)", 4*QueryTimeoutMs)) // the partner gets more time
		s.fallback.send(s.fallback.prelude[0])
	}
	sat2, m2, err2 := s.fallback.Check(asserts)
	if err2 != nil {
		return sat, m, err
	}
	s.FallbackHits++
	return sat2, m2, nil
}

func (s *Solver) CloseAll() {
	if s.fallback != nil {
		s.fallback.Close()
	}
	s.Close()
}

func NewSolver(bin string, args ...string) *Solver {
	s := &Solver{bin: bin, args: args}
	s.start()
	return s
}

// restart replaces the solver process by a fresh one (nothing declared, empty assertion stack).
func (s *Solver) restart() {
	s.in.Close()
	s.cmd.Process.Kill()
	s.cmd.Wait()
	s.Restarts++
	s.start()
	for _, l := range s.prelude {
		s.send(l)
	}
}

func (s *Solver) start() {
	bin := s.bin
	cmd := exec.Command(bin, s.args...)
	in, _ := cmd.StdinPipe()
	out, _ := cmd.StdoutPipe()
	cmd.Stderr = nil
	if err := cmd.Start(); err != nil {
		panic(err)
	}
	s.cmd, s.in, s.out = cmd, in, bufio.NewReader(out)
	s.declared, s.defined, s.vars, s.stack = map[string]Sort{}, map[int]bool{}, nil, nil
	s.send("(set-option :produce-models true)")
	s.send("(set-option :global-declarations true)")
	if !strings.Contains(bin, "cvc5") {
		// (cvc5 answers "unsupported" to these; its limit is passed as --tlimit-per)
		s.send("(set-option :print-success false)")
		s.send(fmt.Sprintf("(set-option :timeout %d)", QueryTimeoutMs))
	}
}

func (s *Solver) Close() { s.in.Close(); s.cmd.Wait() }

func (s *Solver) send(line string) {
	if s.log != nil {
		fmt.Fprintln(s.log, line)
	}
	io.WriteString(s.in, line+"\n")
}

func (s *Solver) readSexp() string {
	// read one complete s-expression or atom line
	var sb strings.Builder
	depth := 0
	started := false
	for {
		line, err := s.out.ReadString('\n')
		if err != nil {
			panic("solver died: " + err.Error() + " partial=" + sb.String())
		}
		sb.WriteString(line)
		for _, c := range line {
			if c == '(' {
				depth++
				started = true
			} else if c == ')' {
				depth--
			}
		}
		t := strings.TrimSpace(line)
		if !started && t != "" {
			return strings.TrimSpace(sb.String())
		}
		if started && depth <= 0 {
			return strings.TrimSpace(sb.String())
		}
	}
}

// define makes sure t and its subterms are declared/defined at base level.
func (s *Solver) define(t *Term) {
	switch t.Op {
	case "const":
		return
	case "var":
		if _, ok := s.declared[t.Name]; !ok {
			s.declared[t.Name] = t.S
			s.vars = append(s.vars, t.Name)
			s.send(fmt.Sprintf("(declare-const %s %s)", t.Name, t.S))
		}
		return
	}
	if s.defined[t.id] {
		return
	}
	for _, a := range t.Args {
		s.define(a)
	}
	s.defined[t.id] = true
	s.send(fmt.Sprintf("(define-fun t%d () %s %s)", t.id, t.S, t.body()))
}

// Check decides satisfiability of the conjunction; returns sat, model.
// unknown is reported via err.
func (s *Solver) Check(asserts []*Term) (bool, map[string]uint64, error) {
	sat, m, err := s.check1(asserts)
	if err != nil && strings.Contains(err.Error(), "solver error") {
		// an "(error ...)" answer: ask a fresh process once more before giving up on the query
		s.restart()
		sat, m, err = s.check1(asserts)
	}
	return sat, m, err
}

func (s *Solver) check1(asserts []*Term) (bool, map[string]uint64, error) {
	t0 := time.Now()
	defer func() { s.Time += time.Since(t0); s.Queries++ }()
	for _, a := range asserts {
		s.define(a)
	}
	// The assertion stack is kept between queries, one push level per assertion; consecutive
	// queries of a depth-first exploration share long prefixes, which are neither re-sent nor
	// re-processed by the solver.
	lcp := 0
	for lcp < len(s.stack) && lcp < len(asserts) && s.stack[lcp] == asserts[lcp] {
		lcp++
	}
	if n := len(s.stack) - lcp; n > 0 {
		s.send(fmt.Sprintf("(pop %d)", n))
		s.stack = s.stack[:lcp]
	}
	for _, a := range asserts[lcp:] {
		s.send("(push 1)")
		s.send("(assert " + a.ref() + ")")
		s.stack = append(s.stack, a)
	}
	tA := time.Now()
	s.send("(check-sat)")
	res := s.readSexp()
	s.TCheck += time.Since(tA)
	s.TPrep += tA.Sub(t0)
	if solverFaultAt > 0 && s.Queries == solverFaultAt && s.Restarts == 0 {
		res = "(error \"injected by VERIF_SOLVER_FAULT\")" // self-test of the restart path
	}
	if strings.Contains(res, "error") {
		s.reset()
		return false, nil, fmt.Errorf("solver error: %s", res)
	}
	switch res {
	case "unsat":
		return false, nil, nil
	case "sat":
		model := map[string]uint64{}
		if len(s.vars) > 0 {
			tB := time.Now()
			s.send("(get-value (" + strings.Join(s.vars, " ") + "))")
			mv := s.readSexp()
			s.TModel += time.Since(tB)
			if strings.Contains(mv, "(error") {
				s.reset()
				return false, nil, fmt.Errorf("solver error: %s", mv)
			}
			parseModel(mv, model)
		}
		return true, model, nil
	default:
		return false, nil, fmt.Errorf("solver answered %q", res)
	}
}

// reset pops every assertion level (after an error the stack state is not trusted).
func (s *Solver) reset() {
	if len(s.stack) > 0 {
		s.send(fmt.Sprintf("(pop %d)", len(s.stack)))
		s.stack = nil
	}
}

func parseModel(s string, m map[string]uint64) {
	// ((name value) (name value) ...) with value one of: true false #x.. #b.. (_ bvN W)
	i, n := 0, len(s)
	skip := func() {
		for i < n && (s[i] == ' ' || s[i] == '\n' || s[i] == '\t' || s[i] == '\r') {
			i++
		}
	}
	atom := func() string {
		st := i
		for i < n && s[i] != ' ' && s[i] != '\n' && s[i] != '(' && s[i] != ')' && s[i] != '\t' && s[i] != '\r' {
			i++
		}
		return s[st:i]
	}
	skip()
	if i >= n || s[i] != '(' {
		return
	}
	i++
	for {
		skip()
		if i >= n || s[i] != '(' {
			return
		}
		i++
		skip()
		name := atom()
		skip()
		var val uint64
		if i < n && s[i] == '(' {
			// (_ bvN W)
			i++
			skip()
			atom() // _
			skip()
			a := atom()
			if strings.HasPrefix(a, "bv") {
				val, _ = strconv.ParseUint(a[2:], 10, 64)
			}
			for i < n && s[i] != ')' {
				i++
			}
			i++
		} else {
			v := atom()
			switch {
			case v == "true":
				val = 1
			case v == "false":
				val = 0
			case strings.HasPrefix(v, "#x"):
				val, _ = strconv.ParseUint(v[2:], 16, 64)
			case strings.HasPrefix(v, "#b"):
				val, _ = strconv.ParseUint(v[2:], 2, 64)
			}
		}
		m[name] = val
		skip()
		if i < n && s[i] == ')' {
			i++
		}
	}
}
