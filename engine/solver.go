package main

import (
	"bufio"
	"fmt"
	"io"
	"os/exec"
	"strconv"
	"strings"
	"time"
)

var QueryTimeoutMs = 10000

type Solver struct {
	cmd      *exec.Cmd
	in       io.WriteCloser
	out      *bufio.Reader
	declared map[string]Sort
	vars     []string
	defined  map[int]bool
	Queries  int
	Time     time.Duration
	log      io.Writer
}

func NewSolver(bin string, args ...string) *Solver {
	cmd := exec.Command(bin, args...)
	in, _ := cmd.StdinPipe()
	out, _ := cmd.StdoutPipe()
	cmd.Stderr = nil
	if err := cmd.Start(); err != nil {
		panic(err)
	}
	s := &Solver{cmd: cmd, in: in, out: bufio.NewReader(out), declared: map[string]Sort{}, defined: map[int]bool{}}
	s.send("(set-option :print-success false)")
	s.send("(set-option :produce-models true)")
	s.send(fmt.Sprintf("(set-option :timeout %d)", QueryTimeoutMs))
	return s
}

func (s *Solver) Close() { s.in.Close(); s.cmd.Wait() }

func (s *Solver) send(line string) {
	if s.log != nil {
		fmt.Fprintln(s.log, line)
	}
	io.WriteString(s.in, line+"\n")
}

func (s *Solver) readSexp() string {
	// read one complete s-expression or atom line
	var sb strings.Builder
	depth := 0
	started := false
	for {
		line, err := s.out.ReadString('\n')
		if err != nil {
			panic("solver died: " + err.Error() + " partial=" + sb.String())
		}
		sb.WriteString(line)
		for _, c := range line {
			if c == '(' {
				depth++
				started = true
			} else if c == ')' {
				depth--
			}
		}
		t := strings.TrimSpace(line)
		if !started && t != "" {
			return strings.TrimSpace(sb.String())
		}
		if started && depth <= 0 {
			return strings.TrimSpace(sb.String())
		}
	}
}

// define makes sure t and its subterms are declared/defined at base level.
func (s *Solver) define(t *Term) {
	switch t.Op {
	case "const":
		return
	case "var":
		if _, ok := s.declared[t.Name]; !ok {
			s.declared[t.Name] = t.S
			s.vars = append(s.vars, t.Name)
			s.send(fmt.Sprintf("(declare-const %s %s)", t.Name, t.S))
		}
		return
	}
	if s.defined[t.id] {
		return
	}
	for _, a := range t.Args {
		s.define(a)
	}
	s.defined[t.id] = true
	s.send(fmt.Sprintf("(define-fun t%d () %s %s)", t.id, t.S, t.body()))
}

// Check decides satisfiability of the conjunction; returns sat, model.
// unknown is reported via err.
func (s *Solver) Check(asserts []*Term) (bool, map[string]uint64, error) {
	t0 := time.Now()
	defer func() { s.Time += time.Since(t0); s.Queries++ }()
	for _, a := range asserts {
		s.define(a)
	}
	s.send("(push 1)")
	for _, a := range asserts {
		s.send("(assert " + a.ref() + ")")
	}
	s.send("(check-sat)")
	res := s.readSexp()
	if strings.Contains(res, "error") {
		s.send("(pop 1)")
		return false, nil, fmt.Errorf("solver error: %s", res)
	}
	switch res {
	case "unsat":
		s.send("(pop 1)")
		return false, nil, nil
	case "sat":
		model := map[string]uint64{}
		if len(s.vars) > 0 {
			s.send("(get-value (" + strings.Join(s.vars, " ") + "))")
			mv := s.readSexp()
			if strings.Contains(mv, "(error") {
				s.send("(pop 1)")
				return false, nil, fmt.Errorf("solver error: %s", mv)
			}
			parseModel(mv, model)
		}
		s.send("(pop 1)")
		return true, model, nil
	default:
		s.send("(pop 1)")
		return false, nil, fmt.Errorf("solver answered %q", res)
	}
}

func parseModel(s string, m map[string]uint64) {
	// ((name value) (name value) ...)
	toks := tokenize(s)
	i := 0
	// skip first "("
	if len(toks) == 0 {
		return
	}
	i++
	for i < len(toks) && toks[i] == "(" {
		name := toks[i+1]
		v := toks[i+2]
		var val uint64
		switch {
		case v == "true":
			val = 1
		case v == "false":
			val = 0
		case strings.HasPrefix(v, "#x"):
			val, _ = strconv.ParseUint(v[2:], 16, 64)
		case strings.HasPrefix(v, "#b"):
			val, _ = strconv.ParseUint(v[2:], 2, 64)
		case v == "(":
			// (_ bvN W)
			if toks[i+3] == "_" && strings.HasPrefix(toks[i+4], "bv") {
				val, _ = strconv.ParseUint(toks[i+4][2:], 10, 64)
			}
			// skip to matching )
			d := 1
			j := i + 3
			for d > 0 {
				if toks[j] == "(" {
					d++
				} else if toks[j] == ")" {
					d--
				}
				j++
			}
			m[name] = val
			i = j + 1
			continue
		}
		m[name] = val
		i += 4
	}
}

func tokenize(s string) []string {
	var toks []string
	cur := ""
	for _, c := range s {
		switch c {
		case '(', ')':
			if cur != "" {
				toks = append(toks, cur)
				cur = ""
			}
			toks = append(toks, string(c))
		case ' ', '\n', '\t', '\r':
			if cur != "" {
				toks = append(toks, cur)
				cur = ""
			}
		default:
			cur += string(c)
		}
	}
	if cur != "" {
		toks = append(toks, cur)
	}
	return toks
}
