package main

import (
	"fmt"
	"math"
	"math/bits"
	"strconv"
	"sync"
)

type SortKind int

const (
	SBool SortKind = iota
	SBV
)

type Sort struct {
	K SortKind
	W int
}

func (s Sort) String() string {
	if s.K == SBool {
		return "Bool"
	}
	return fmt.Sprintf("(_ BitVec %d)", s.W)
}

var BoolSort = Sort{SBool, 0}

func BV(w int) Sort { return Sort{SBV, w} }

// Term is a hash-consed SMT term. FP values are carried as BV64 bit patterns and
// operated on with fp.* ops that wrap/unwrap via to_fp / fp.to_ieee_bv-free encodings.
type Term struct {
	Op      string
	Args    []*Term
	S       Sort
	C       uint64 // constant value when Op=="const"
	Name    string // when Op=="var"
	P1, P2  int
	id      int
	defined bool
	fv      *Term // the single free variable, when fvN == 1
	fvN     int   // number of distinct free variables: 0, 1, or 2 (= two or more)
	size    int   // number of nodes (tree size, capped)
}

var (
	termMu   sync.Mutex
	termTab  = map[string]*Term{}
	termList []*Term
)

func numTerms() int { termMu.Lock(); defer termMu.Unlock(); return len(termList) }

func mask(w int) uint64 {
	if w >= 64 {
		return ^uint64(0)
	}
	return (uint64(1) << uint(w)) - 1
}

func intern(t *Term) *Term {
	var buf [96]byte
	b := buf[:0]
	b = append(b, t.Op...)
	b = append(b, '|')
	b = strconv.AppendInt(b, int64(t.S.K), 10)
	b = append(b, '.')
	b = strconv.AppendInt(b, int64(t.S.W), 10)
	b = append(b, '|')
	b = strconv.AppendUint(b, t.C, 10)
	b = append(b, '|')
	b = append(b, t.Name...)
	b = append(b, '|')
	b = strconv.AppendInt(b, int64(t.P1), 10)
	b = append(b, ',')
	b = strconv.AppendInt(b, int64(t.P2), 10)
	for _, a := range t.Args {
		b = append(b, '#')
		b = strconv.AppendInt(b, int64(a.id), 10)
	}
	k := string(b)
	termMu.Lock()
	defer termMu.Unlock()
	if e, ok := termTab[k]; ok {
		return e
	}
	t.id = len(termList) + 1
	switch t.Op {
	case "const":
		t.size = 1
	case "var":
		t.fv, t.fvN, t.size = t, 1, 1
	default:
		t.size = 1
		for _, a := range t.Args {
			t.size += a.size
			if t.size > 1<<20 {
				t.size = 1 << 20
			}
			switch {
			case a.fvN == 0:
			case a.fvN == 2 || (t.fvN == 1 && a.fv != t.fv):
				t.fvN, t.fv = 2, nil
			case t.fvN == 0:
				t.fvN, t.fv = 1, a.fv
			}
		}
	}
	termTab[k] = t
	termList = append(termList, t)
	return t
}

func Const(w int, v uint64) *Term { return intern(&Term{Op: "const", S: BV(w), C: v & mask(w)}) }
func BoolConst(b bool) *Term {
	var c uint64
	if b {
		c = 1
	}
	return intern(&Term{Op: "const", S: BoolSort, C: c})
}
func Var(name string, s Sort) *Term { return intern(&Term{Op: "var", S: s, Name: name}) }

func (t *Term) IsConst() bool { return t.Op == "const" }
func (t *Term) IsTrue() bool  { return t.Op == "const" && t.S.K == SBool && t.C == 1 }
func (t *Term) IsFalse() bool { return t.Op == "const" && t.S.K == SBool && t.C == 0 }

func sext(v uint64, w int) int64 {
	if w >= 64 {
		return int64(v)
	}
	sh := uint(64 - w)
	return int64(v<<sh) >> sh
}

func Not(a *Term) *Term {
	if a.IsConst() {
		return BoolConst(a.C == 0)
	}
	if a.Op == "not" {
		return a.Args[0]
	}
	return intern(&Term{Op: "not", Args: []*Term{a}, S: BoolSort})
}

func And(a, b *Term) *Term {
	if a.IsFalse() || b.IsFalse() {
		return BoolConst(false)
	}
	if a.IsTrue() {
		return b
	}
	if b.IsTrue() {
		return a
	}
	if a == b {
		return a
	}
	return intern(&Term{Op: "and", Args: []*Term{a, b}, S: BoolSort})
}

func Or(a, b *Term) *Term {
	if a.IsTrue() || b.IsTrue() {
		return BoolConst(true)
	}
	if a.IsFalse() {
		return b
	}
	if b.IsFalse() {
		return a
	}
	if a == b {
		return a
	}
	return intern(&Term{Op: "or", Args: []*Term{a, b}, S: BoolSort})
}

func Ite(c, a, b *Term) *Term {
	if c.IsTrue() {
		return a
	}
	if c.IsFalse() {
		return b
	}
	if a == b {
		return a
	}
	if a.S.K == SBool {
		if a.IsTrue() && b.IsFalse() {
			return c
		}
		if a.IsFalse() && b.IsTrue() {
			return Not(c)
		}
	}
	return intern(&Term{Op: "ite", Args: []*Term{c, a, b}, S: a.S})
}

func Eq(a, b *Term) *Term {
	if a == b {
		return BoolConst(true)
	}
	if a.IsConst() && b.IsConst() {
		return BoolConst(a.C == b.C)
	}
	if a.S != b.S {
		panic(fmt.Sprintf("Eq sort mismatch %v %v", a.S, b.S))
	}
	if a.id > b.id {
		a, b = b, a
	}
	return intern(&Term{Op: "=", Args: []*Term{a, b}, S: BoolSort})
}

// bvBin builds a binary BV op with folding.
func bvBin(op string, a, b *Term) *Term {
	w := a.S.W
	if a.S != b.S {
		panic(fmt.Sprintf("%s sort mismatch %v %v", op, a.S, b.S))
	}
	if a.IsConst() && b.IsConst() {
		x, y := a.C, b.C
		var r uint64
		switch op {
		case "bvadd":
			r = x + y
		case "bvsub":
			r = x - y
		case "bvmul":
			r = x * y
		case "bvand":
			r = x & y
		case "bvor":
			r = x | y
		case "bvxor":
			r = x ^ y
		case "bvshl":
			if y >= uint64(w) {
				r = 0
			} else {
				r = x << y
			}
		case "bvlshr":
			if y >= uint64(w) {
				r = 0
			} else {
				r = x >> y
			}
		case "bvashr":
			if y >= uint64(w) {
				y = uint64(w - 1)
			}
			r = uint64(sext(x, w) >> y)
		case "bvudiv":
			if y == 0 {
				r = mask(w)
			} else {
				r = x / y
			}
		case "bvurem":
			if y == 0 {
				r = x
			} else {
				r = x % y
			}
		case "bvsdiv":
			if y == 0 {
				goto build
			}
			r = uint64(sext(x, w) / sext(y, w))
		case "bvsrem":
			if y == 0 {
				goto build
			}
			r = uint64(sext(x, w) % sext(y, w))
		default:
			goto build
		}
		return Const(w, r)
	}
	// identities
	switch op {
	case "bvadd":
		if a.IsConst() && a.C == 0 {
			return b
		}
		if b.IsConst() && b.C == 0 {
			return a
		}
		// (x + c1) + c2
		if b.IsConst() && a.Op == "bvadd" && a.Args[1].IsConst() {
			return bvBin("bvadd", a.Args[0], Const(w, a.Args[1].C+b.C))
		}
		if a.IsConst() {
			a, b = b, a
		}
	case "bvsub":
		if b.IsConst() && b.C == 0 {
			return a
		}
		if a == b {
			return Const(w, 0)
		}
		if b.IsConst() {
			return bvBin("bvadd", a, Const(w, -b.C))
		}
		// (x + c) - x = c
		if a.Op == "bvadd" && a.Args[0] == b {
			return a.Args[1]
		}
		// (x + c1) - (x + c2)
		if a.Op == "bvadd" && b.Op == "bvadd" && a.Args[0] == b.Args[0] {
			return bvBin("bvsub", a.Args[1], b.Args[1])
		}
	case "bvand":
		if b.IsConst() && b.C == mask(w) {
			return a
		}
		if a.IsConst() && a.C == mask(w) {
			return b
		}
		if (a.IsConst() && a.C == 0) || (b.IsConst() && b.C == 0) {
			return Const(w, 0)
		}
	case "bvor", "bvxor":
		if b.IsConst() && b.C == 0 {
			return a
		}
		if a.IsConst() && a.C == 0 {
			return b
		}
	case "bvshl", "bvlshr", "bvashr":
		if b.IsConst() && b.C == 0 {
			return a
		}
	case "bvmul":
		if b.IsConst() && b.C == 1 {
			return a
		}
		if a.IsConst() && a.C == 1 {
			return b
		}
	}
build:
	return intern(&Term{Op: op, Args: []*Term{a, b}, S: a.S})
}

func bvCmp(op string, a, b *Term) *Term {
	if a.S != b.S {
		panic(fmt.Sprintf("%s sort mismatch %v %v", op, a.S, b.S))
	}
	w := a.S.W
	if a.IsConst() && b.IsConst() {
		var r bool
		switch op {
		case "bvult":
			r = a.C < b.C
		case "bvule":
			r = a.C <= b.C
		case "bvslt":
			r = sext(a.C, w) < sext(b.C, w)
		case "bvsle":
			r = sext(a.C, w) <= sext(b.C, w)
		}
		return BoolConst(r)
	}
	if a == b {
		return BoolConst(op == "bvule" || op == "bvsle")
	}
	return intern(&Term{Op: op, Args: []*Term{a, b}, S: BoolSort})
}

func BvNeg(a *Term) *Term { return bvBin("bvsub", Const(a.S.W, 0), a) }
func BvNot(a *Term) *Term {
	if a.IsConst() {
		return Const(a.S.W, ^a.C)
	}
	return intern(&Term{Op: "bvnot", Args: []*Term{a}, S: a.S})
}

func Extract(a *Term, hi, lo int) *Term {
	w := hi - lo + 1
	if lo == 0 && w == a.S.W {
		return a
	}
	if a.IsConst() {
		return Const(w, a.C>>uint(lo))
	}
	if (a.Op == "zext" || a.Op == "sext") && lo == 0 && w <= a.Args[0].S.W {
		return Extract(a.Args[0], hi, lo)
	}
	return intern(&Term{Op: "extract", Args: []*Term{a}, S: BV(w), P1: hi, P2: lo})
}

func ZExt(a *Term, w int) *Term {
	if w == a.S.W {
		return a
	}
	if w < a.S.W {
		return Extract(a, w-1, 0)
	}
	if a.IsConst() {
		return Const(w, a.C)
	}
	return intern(&Term{Op: "zext", Args: []*Term{a}, S: BV(w), P1: w - a.S.W})
}

func SExt(a *Term, w int) *Term {
	if w == a.S.W {
		return a
	}
	if w < a.S.W {
		return Extract(a, w-1, 0)
	}
	if a.IsConst() {
		return Const(w, uint64(sext(a.C, a.S.W)))
	}
	return intern(&Term{Op: "sext", Args: []*Term{a}, S: BV(w), P1: w - a.S.W})
}

// ---- floating point (float64 carried as BV64) ----

func fpBin(op string, a, b *Term) *Term {
	if a.IsConst() && b.IsConst() {
		x, y := math.Float64frombits(a.C), math.Float64frombits(b.C)
		var r float64
		switch op {
		case "fp.add":
			r = x + y
		case "fp.sub":
			r = x - y
		case "fp.mul":
			r = x * y
		case "fp.div":
			r = x / y
		}
		return Const(64, math.Float64bits(r))
	}
	return intern(&Term{Op: op, Args: []*Term{a, b}, S: BV(64)})
}

func fpCmp(op string, a, b *Term) *Term {
	if a.IsConst() && b.IsConst() {
		x, y := math.Float64frombits(a.C), math.Float64frombits(b.C)
		var r bool
		switch op {
		case "fp.eq":
			r = x == y
		case "fp.lt":
			r = x < y
		case "fp.leq":
			r = x <= y
		case "fp.gt":
			r = x > y
		case "fp.geq":
			r = x >= y
		}
		return BoolConst(r)
	}
	return intern(&Term{Op: op, Args: []*Term{a, b}, S: BoolSort})
}

func fpNeg(a *Term) *Term {
	if a.IsConst() {
		return Const(64, math.Float64bits(-math.Float64frombits(a.C)))
	}
	return intern(&Term{Op: "fp.neg", Args: []*Term{a}, S: BV(64)})
}

func fpUn(op string, a *Term) *Term {
	if a.IsConst() {
		x := math.Float64frombits(a.C)
		switch op {
		case "fp.floor":
			return Const(64, math.Float64bits(math.Floor(x)))
		case "fp.ceil":
			return Const(64, math.Float64bits(math.Ceil(x)))
		case "fp.trunc":
			return Const(64, math.Float64bits(math.Trunc(x)))
		case "fp.abs":
			return Const(64, math.Float64bits(math.Abs(x)))
		}
	}
	return intern(&Term{Op: op, Args: []*Term{a}, S: BV(64)})
}

func fpIsNaN(a *Term) *Term {
	if a.IsConst() {
		return BoolConst(math.IsNaN(math.Float64frombits(a.C)))
	}
	return intern(&Term{Op: "fp.isNaN", Args: []*Term{a}, S: BoolSort})
}

// float64 -> signed 64-bit int, truncating (Go conversion semantics for in-range values)
func fpToSInt(a *Term) *Term {
	if a.IsConst() {
		return Const(64, uint64(int64(math.Float64frombits(a.C))))
	}
	return intern(&Term{Op: "fp.to_sint", Args: []*Term{a}, S: BV(64)})
}

// signed int (width w) -> float64
func fpFromSInt(a *Term) *Term {
	if a.IsConst() {
		return Const(64, math.Float64bits(float64(sext(a.C, a.S.W))))
	}
	return intern(&Term{Op: "fp.from_sint", Args: []*Term{a}, S: BV(64)})
}

// ---- printing ----

func (t *Term) ref() string {
	switch t.Op {
	case "const":
		if t.S.K == SBool {
			if t.C == 1 {
				return "true"
			}
			return "false"
		}
		return fmt.Sprintf("(_ bv%d %d)", t.C, t.S.W)
	case "var":
		return t.Name
	}
	return fmt.Sprintf("t%d", t.id)
}

func fpw(r string) string { return "((_ to_fp 11 53) " + r + ")" }

// body returns the SMT-LIB definition body of a non-leaf term.
func (t *Term) body() string {
	a := func(i int) string { return t.Args[i].ref() }
	switch t.Op {
	case "not":
		return "(not " + a(0) + ")"
	case "and", "or", "=", "bvadd", "bvsub", "bvmul", "bvand", "bvor", "bvxor", "bvshl", "bvlshr", "bvashr",
		"bvudiv", "bvurem", "bvsdiv", "bvsrem", "bvult", "bvule", "bvslt", "bvsle":
		return "(" + t.Op + " " + a(0) + " " + a(1) + ")"
	case "ite":
		return "(ite " + a(0) + " " + a(1) + " " + a(2) + ")"
	case "bvnot":
		return "(bvnot " + a(0) + ")"
	case "extract":
		return fmt.Sprintf("((_ extract %d %d) %s)", t.P1, t.P2, a(0))
	case "zext":
		return fmt.Sprintf("((_ zero_extend %d) %s)", t.P1, a(0))
	case "sext":
		return fmt.Sprintf("((_ sign_extend %d) %s)", t.P1, a(0))
	case "fp.add", "fp.sub", "fp.mul", "fp.div":
		// result as BV64 via a fresh-less encoding: to_ieee_bv is z3-only; use fp.to_ieee_bv (supported by z3) .
		return "(fp.to_ieee_bv (" + t.Op + " RNE " + fpw(a(0)) + " " + fpw(a(1)) + "))"
	case "fp.neg":
		return "(fp.to_ieee_bv (fp.neg " + fpw(a(0)) + "))"
	case "fp.eq", "fp.lt", "fp.leq", "fp.gt", "fp.geq":
		return "(" + t.Op + " " + fpw(a(0)) + " " + fpw(a(1)) + ")"
	case "fp.isNaN":
		return "(fp.isNaN " + fpw(a(0)) + ")"
	case "fp.floor":
		return "(fp.to_ieee_bv (fp.roundToIntegral RTN " + fpw(a(0)) + "))"
	case "fp.ceil":
		return "(fp.to_ieee_bv (fp.roundToIntegral RTP " + fpw(a(0)) + "))"
	case "fp.trunc":
		return "(fp.to_ieee_bv (fp.roundToIntegral RTZ " + fpw(a(0)) + "))"
	case "fp.abs":
		return "(fp.to_ieee_bv (fp.abs " + fpw(a(0)) + "))"
	case "fp.to_sint":
		return "((_ fp.to_sbv 64) RTZ " + fpw(a(0)) + ")"
	case "fp.from_sint":
		return "(fp.to_ieee_bv ((_ to_fp 11 53) RNE " + a(0) + "))"
	}
	panic("body: unknown op " + t.Op)
}

// eval evaluates t under a model of variable values.
func evalTerm(t *Term, model map[string]uint64, memo map[*Term]uint64) uint64 {
	if t.Op == "const" {
		return t.C
	}
	if v, ok := memo[t]; ok {
		return v
	}
	var r uint64
	b2u := func(b bool) uint64 {
		if b {
			return 1
		}
		return 0
	}
	ev := func(i int) uint64 { return evalTerm(t.Args[i], model, memo) }
	switch t.Op {
	case "var":
		r = model[t.Name] & mask64(t.S)
	case "not":
		r = 1 - ev(0)
	case "and":
		r = ev(0) & ev(1)
	case "or":
		r = ev(0) | ev(1)
	case "=":
		r = b2u(ev(0) == ev(1))
	case "ite":
		if ev(0) == 1 {
			r = ev(1)
		} else {
			r = ev(2)
		}
	case "bvnot":
		r = ^ev(0) & mask(t.S.W)
	case "extract":
		r = (ev(0) >> uint(t.P2)) & mask(t.S.W)
	case "zext":
		r = ev(0)
	case "sext":
		r = uint64(sext(ev(0), t.Args[0].S.W)) & mask(t.S.W)
	case "bvult", "bvule", "bvslt", "bvsle":
		c := bvCmp(t.Op, Const(t.Args[0].S.W, ev(0)), Const(t.Args[0].S.W, ev(1)))
		r = c.C
	case "fp.add", "fp.sub", "fp.mul", "fp.div":
		r = fpBin(t.Op, Const(64, ev(0)), Const(64, ev(1))).C
	case "fp.eq", "fp.lt", "fp.leq", "fp.gt", "fp.geq":
		r = fpCmp(t.Op, Const(64, ev(0)), Const(64, ev(1))).C
	case "fp.neg":
		r = math.Float64bits(-math.Float64frombits(ev(0)))
	case "fp.isNaN":
		r = b2u(math.IsNaN(math.Float64frombits(ev(0))))
	case "fp.floor":
		r = math.Float64bits(math.Floor(math.Float64frombits(ev(0))))
	case "fp.ceil":
		r = math.Float64bits(math.Ceil(math.Float64frombits(ev(0))))
	case "fp.trunc":
		r = math.Float64bits(math.Trunc(math.Float64frombits(ev(0))))
	case "fp.abs":
		r = math.Float64bits(math.Abs(math.Float64frombits(ev(0))))
	case "fp.to_sint":
		r = uint64(int64(math.Float64frombits(ev(0))))
	case "fp.from_sint":
		r = math.Float64bits(float64(sext(ev(0), t.Args[0].S.W)))
	default:
		w := t.S.W
		x, y := ev(0), ev(1)
		if y == 0 && (t.Op == "bvsdiv" || t.Op == "bvsrem") {
			// SMT-LIB semantics
			if t.Op == "bvsdiv" {
				if sext(x, w) < 0 {
					r = 1
				} else {
					r = mask(w)
				}
			} else {
				r = x
			}
		} else {
			r = bvBin(t.Op, Const(w, x), Const(w, y)).C
		}
	}
	memo[t] = r
	return r
}

func mask64(s Sort) uint64 {
	if s.K == SBool {
		return 1
	}
	return mask(s.W)
}

var _ = bits.Len

// termMax returns a cheap upper bound (unsigned) of a BV term's value.
func termMax(t *Term) uint64 {
	switch t.Op {
	case "const":
		return t.C
	case "zext":
		return termMax(t.Args[0])
	case "ite":
		a, b := termMax(t.Args[1]), termMax(t.Args[2])
		if a > b {
			return a
		}
		return b
	case "bvand":
		a, b := termMax(t.Args[0]), termMax(t.Args[1])
		if a < b {
			return a
		}
		return b
	case "bvor", "bvxor":
		a, b := termMax(t.Args[0]), termMax(t.Args[1])
		if a < b {
			a = b
		}
		// smallest 2^k-1 >= a
		n := uint64(1)<<uint(bits.Len64(a)) - 1
		if bits.Len64(a) == 64 {
			n = ^uint64(0)
		}
		return n & mask(t.S.W)
	case "bvshl":
		if t.Args[1].IsConst() && t.Args[1].C < 64 {
			a := termMax(t.Args[0])
			if bits.Len64(a)+int(t.Args[1].C) <= t.S.W && bits.Len64(a)+int(t.Args[1].C) < 64 {
				return a << t.Args[1].C
			}
		}
	case "bvlshr":
		if t.Args[1].IsConst() && t.Args[1].C < 64 {
			return termMax(t.Args[0]) >> t.Args[1].C
		}
	case "sext":
		if termMax(t.Args[0]) < uint64(1)<<uint(t.Args[0].S.W-1) {
			return termMax(t.Args[0])
		}
	}
	return mask(t.S.W)
}
