package main

import "sync"

type wakeMsg struct {
	abort    bool
	deadlock bool
}

type G struct {
	id   int
	wake chan wakeMsg
	done bool
	name string
	vc   []int // vector clock (happens-before tracking, see race.go)
}

type waiter struct {
	g           *G
	val         Value
	ok          bool
	closedPanic bool
	vc          []int     // clock of the sender (send waiters) / of the receiver when it blocked (recv waiters)
	sel         *selGroup // non-nil: one case of a blocked select
	idx         int       // case index within the select
}

// selGroup ties together the waiters a blocked select has queued on its channels: the first one
// that is served wins, the others are withdrawn.
type selGroup struct {
	fired int // index of the case that was served (-1: none yet)
	ws    []*waiter
	chans []*Chan
}

// served is called when waiter w has been taken off a queue by the other side of the
// communication: for a select case it records the winner and withdraws the sibling cases.
func (s *Sched) served(w *waiter) {
	if w.sel == nil {
		return
	}
	w.sel.fired = w.idx
	for i, o := range w.sel.ws {
		if o == w {
			continue
		}
		c := w.sel.chans[i]
		c.recvq = dropWaiter(c.recvq, o)
		c.sendq = dropWaiter(c.sendq, o)
	}
}

func dropWaiter(q []*waiter, w *waiter) []*waiter {
	for i, x := range q {
		if x == w {
			return append(q[:i:i], q[i+1:]...)
		}
	}
	return q
}

type selCase struct {
	c    *Chan
	send bool
	val  Value
}

// selectOp implements a select statement. Among several ready cases Go picks at random: the
// pick is an explored choice. Returns the chosen index (-1: default), the received value and ok.
func (s *Sched) selectOp(cases []selCase, blocking bool) (int, Value, bool) {
	var ready []int
	for i, k := range cases {
		c := k.c
		if c == nil {
			continue
		}
		if k.send {
			if c.closed || len(c.recvq) > 0 || len(c.buf) < c.cap {
				ready = append(ready, i)
			}
		} else if len(c.buf) > 0 || len(c.sendq) > 0 || c.closed {
			ready = append(ready, i)
		}
	}
	if len(ready) > 0 {
		i := ready[0]
		if len(ready) > 1 {
			i = ready[s.in.ex.Choose(len(ready), "select among ready cases")]
		}
		if cases[i].send {
			s.send(cases[i].c, cases[i].val)
			return i, nil, false
		}
		v, ok := s.recv(cases[i].c)
		return i, v, ok
	}
	if !blocking {
		return -1, nil, false
	}
	grp := &selGroup{fired: -1}
	for i, k := range cases {
		if k.c == nil {
			continue
		}
		w := &waiter{g: s.cur, vc: vcCopy(s.cur.vc), sel: grp, idx: i}
		if k.send {
			w.val = k.val
			k.c.sendq = append(k.c.sendq, w)
		} else {
			k.c.recvq = append(k.c.recvq, w)
		}
		grp.ws = append(grp.ws, w)
		grp.chans = append(grp.chans, k.c)
	}
	vcTick(&s.cur.vc, s.cur.id)
	s.block()
	for _, w := range grp.ws {
		if w.idx == grp.fired {
			if w.closedPanic {
				s.in.rtPanic("send on closed channel")
			}
			return w.idx, w.val, w.ok
		}
	}
	panic("select: woken without a served case")
}

type Chan struct {
	bufVC   [][]int // clocks of the buffered sends
	closeVC []int
	buf     []Value
	cap     int
	closed  bool
	recvq   []*waiter
	sendq   []*waiter
	zero    Value
}

type wgState struct {
	n       int
	waiters []*G
	vc      []int
}

type mutexState struct {
	writer  bool
	readers int
	waiters []*G
	vc      []int
}

type Sched struct {
	mutexes map[*Value]*mutexState
	lifo    bool // serve the run queue last-in-first-out (see verifSchedChoice)
	wgs     map[*Value]*wgState
	in      *Interp
	cur     *G
	main    *G
	runq    []*G
	all     []*G
	wg      sync.WaitGroup
	fail    interface{} // abort/panic raised in a non-main goroutine, to deliver to main
}

func newSched(in *Interp) *Sched {
	s := &Sched{in: in}
	s.main = &G{id: 0, wake: make(chan wakeMsg, 1), name: "main"}
	s.cur = s.main
	s.all = []*G{s.main}
	return s
}

type abortG struct{}

func (s *Sched) spawn(name string, fn func()) {
	g := &G{id: len(s.all), wake: make(chan wakeMsg, 1), name: name}
	g.vc = vcCopy(s.cur.vc)
	vcTick(&g.vc, g.id)
	vcTick(&s.cur.vc, s.cur.id)
	s.all = append(s.all, g)
	s.runq = append(s.runq, g)
	s.wg.Add(1)
	go func() {
		defer s.wg.Done()
		msg := <-g.wake
		if msg.abort {
			g.done = true
			return
		}
		func() {
			defer func() {
				if r := recover(); r != nil {
					if _, ok := r.(abortG); ok {
						g.done = true
						return
					}
					// failure inside goroutine: hand to main
					g.done = true
					s.fail = r
					s.cur = s.main
					s.main.wake <- wakeMsg{}
					return
				}
			}()
			fn()
			g.done = true
			s.exit(g)
		}()
	}()
}

func (s *Sched) makeRunnable(g *G) { s.runq = append(s.runq, g) }

// block suspends the current goroutine until made runnable and scheduled.
func (s *Sched) block() {
	g := s.cur
	if len(s.runq) == 0 {
		// everyone is blocked
		if g == s.main {
			panic(abortPath{kind: "deadlock", reason: "main goroutine blocked forever"})
		}
		s.cur = s.main
		s.main.wake <- wakeMsg{deadlock: true}
	} else {
		next := s.pick()
		s.cur = next
		next.wake <- wakeMsg{}
	}
	msg := <-g.wake
	if msg.abort {
		panic(abortG{})
	}
	if g == s.main {
		if s.fail != nil {
			f := s.fail
			s.fail = nil
			panic(f)
		}
		if msg.deadlock {
			panic(abortPath{kind: "deadlock", reason: "main goroutine blocked forever"})
		}
	}
}

func (s *Sched) exit(g *G) {
	if len(s.runq) == 0 {
		s.cur = s.main
		s.main.wake <- wakeMsg{deadlock: true}
		return
	}
	next := s.pick()
	s.cur = next
	next.wake <- wakeMsg{}
}

// pick removes and returns the next goroutine to run.
func (s *Sched) pick() *G {
	i := 0
	if s.lifo {
		i = len(s.runq) - 1
	}
	g := s.runq[i]
	s.runq = append(s.runq[:i:i], s.runq[i+1:]...)
	return g
}

func (s *Sched) mutexOf(p *Value) *mutexState {
	if p == nil {
		s.in.rtPanic("invalid memory address or nil pointer dereference")
	}
	if s.mutexes == nil {
		s.mutexes = map[*Value]*mutexState{}
	}
	m := s.mutexes[p]
	if m == nil {
		m = &mutexState{}
		s.mutexes[p] = m
	}
	return m
}

// mutexLock acquires the (RW)mutex for writing or reading, parking the goroutine while it is not
// available; Unlock happens-before the Lock it enables.
func (s *Sched) mutexLock(p *Value, write bool) {
	m := s.mutexOf(p)
	for m.writer || (write && m.readers > 0) {
		m.waiters = append(m.waiters, s.cur)
		s.block() // (deadlock if nobody is left to unlock)
	}
	if write {
		m.writer = true
	} else {
		m.readers++
	}
	vcJoin(&s.cur.vc, m.vc)
}

func (s *Sched) mutexUnlock(p *Value, write bool) {
	m := s.mutexOf(p)
	if write {
		if !m.writer {
			s.in.rtPanic("sync: unlock of unlocked mutex")
		}
		m.writer = false
	} else {
		if m.readers == 0 {
			s.in.rtPanic("sync: RUnlock of unlocked RWMutex")
		}
		m.readers--
	}
	vcTick(&s.cur.vc, s.cur.id)
	vcJoin(&m.vc, s.cur.vc)
	vcTick(&s.cur.vc, s.cur.id)
	for _, g := range m.waiters {
		s.makeRunnable(g)
	}
	m.waiters = nil
}

func (s *Sched) wgOf(p *Value) *wgState {
	if s.wgs == nil {
		s.wgs = map[*Value]*wgState{}
	}
	w := s.wgs[p]
	if w == nil {
		w = &wgState{}
		s.wgs[p] = w
	}
	return w
}

func (s *Sched) wgAdd(p *Value, d int) {
	w := s.wgOf(p)
	w.n += d
	if w.n < 0 {
		s.in.rtPanic("sync: negative WaitGroup counter")
	}
	if d < 0 {
		vcTick(&s.cur.vc, s.cur.id)
		vcJoin(&w.vc, s.cur.vc)
		vcTick(&s.cur.vc, s.cur.id)
	}
	if w.n == 0 {
		for _, g := range w.waiters {
			vcJoin(&g.vc, w.vc)
			s.makeRunnable(g)
		}
		w.waiters = nil
	}
}

func (s *Sched) wgWait(p *Value) {
	w := s.wgOf(p)
	if w.n == 0 {
		vcJoin(&s.cur.vc, w.vc)
		return
	}
	w.waiters = append(w.waiters, s.cur)
	s.block()
}

// finish is called by main when the harness returns: report live goroutines and kill them.
func (s *Sched) finish() (leaked []string) {
	for _, g := range s.all[1:] {
		if !g.done {
			leaked = append(leaked, g.name)
			g.wake <- wakeMsg{abort: true}
		}
	}
	s.wg.Wait()
	return
}

func (s *Sched) send(c *Chan, v Value) {
	if c == nil {
		s.block()
	}
	if c.closed {
		s.in.rtPanic("send on closed channel")
	}
	vcTick(&s.cur.vc, s.cur.id)
	if len(c.recvq) > 0 {
		w := c.recvq[0]
		c.recvq = c.recvq[1:]
		s.served(w)
		w.val, w.ok = v, true
		// the receive happens after the send; for an unbuffered channel the send completes after
		// the receive started
		recvVC := w.vc
		vcJoin(&w.g.vc, s.cur.vc)
		if c.cap == 0 {
			vcJoin(&s.cur.vc, recvVC)
		}
		vcTick(&s.cur.vc, s.cur.id) // what the sender does from now on is not covered by this send
		s.makeRunnable(w.g)
		return
	}
	if len(c.buf) < c.cap {
		c.buf = append(c.buf, v)
		c.bufVC = append(c.bufVC, vcCopy(s.cur.vc))
		vcTick(&s.cur.vc, s.cur.id)
		return
	}
	w := &waiter{g: s.cur, val: v, vc: vcCopy(s.cur.vc)}
	vcTick(&s.cur.vc, s.cur.id)
	c.sendq = append(c.sendq, w)
	s.block()
	if w.closedPanic {
		s.in.rtPanic("send on closed channel")
	}
}

func (s *Sched) recv(c *Chan) (Value, bool) {
	if c == nil {
		s.block()
	}
	vcTick(&s.cur.vc, s.cur.id)
	if len(c.buf) > 0 {
		v := c.buf[0]
		c.buf = c.buf[1:]
		if len(c.bufVC) > 0 {
			vcJoin(&s.cur.vc, c.bufVC[0])
			c.bufVC = c.bufVC[1:]
		}
		if len(c.sendq) > 0 {
			w := c.sendq[0]
			c.sendq = c.sendq[1:]
			s.served(w)
			c.buf = append(c.buf, w.val)
			c.bufVC = append(c.bufVC, w.vc)
			s.makeRunnable(w.g)
		}
		return v, true
	}
	if len(c.sendq) > 0 {
		w := c.sendq[0]
		c.sendq = c.sendq[1:]
		s.served(w)
		mine := vcCopy(s.cur.vc)
		vcJoin(&s.cur.vc, w.vc)
		if c.cap == 0 {
			vcJoin(&w.g.vc, mine)
		}
		vcTick(&s.cur.vc, s.cur.id)
		s.makeRunnable(w.g)
		return w.val, true
	}
	if c.closed {
		vcJoin(&s.cur.vc, c.closeVC)
		return copyVal(c.zero), false
	}
	w := &waiter{g: s.cur, vc: vcCopy(s.cur.vc)}
	vcTick(&s.cur.vc, s.cur.id)
	c.recvq = append(c.recvq, w)
	s.block()
	return w.val, w.ok
}

func (s *Sched) closeChan(c *Chan) {
	if c.closed {
		s.in.rtPanic("close of closed channel")
	}
	c.closed = true
	vcTick(&s.cur.vc, s.cur.id)
	c.closeVC = vcCopy(s.cur.vc)
	defer vcTick(&s.cur.vc, s.cur.id)
	// (served may withdraw sibling select cases from these very queues: iterate over copies and
	// skip the cases of a select that has been served already)
	rq, sq := append([]*waiter(nil), c.recvq...), append([]*waiter(nil), c.sendq...)
	c.recvq, c.sendq = nil, nil
	for _, w := range rq {
		if w.sel != nil && w.sel.fired >= 0 {
			continue
		}
		s.served(w)
		vcJoin(&w.g.vc, c.closeVC)
		w.val, w.ok = copyVal(c.zero), false
		s.makeRunnable(w.g)
	}
	for _, w := range sq {
		if w.sel != nil && w.sel.fired >= 0 {
			continue
		}
		s.served(w)
		w.closedPanic = true
		s.makeRunnable(w.g)
	}
}
