package main

import "sync"

type wakeMsg struct {
	abort    bool
	deadlock bool
}

type G struct {
	id   int
	wake chan wakeMsg
	done bool
	name string
}

type waiter struct {
	g           *G
	val         Value
	ok          bool
	closedPanic bool
}

type Chan struct {
	buf    []Value
	cap    int
	closed bool
	recvq  []*waiter
	sendq  []*waiter
	zero   Value
}

type Sched struct {
	in     *Interp
	cur    *G
	main   *G
	runq   []*G
	all    []*G
	wg     sync.WaitGroup
	fail   interface{} // abort/panic raised in a non-main goroutine, to deliver to main
}

func newSched(in *Interp) *Sched {
	s := &Sched{in: in}
	s.main = &G{id: 0, wake: make(chan wakeMsg, 1), name: "main"}
	s.cur = s.main
	s.all = []*G{s.main}
	return s
}

type abortG struct{}

func (s *Sched) spawn(name string, fn func()) {
	g := &G{id: len(s.all), wake: make(chan wakeMsg, 1), name: name}
	s.all = append(s.all, g)
	s.runq = append(s.runq, g)
	s.wg.Add(1)
	go func() {
		defer s.wg.Done()
		msg := <-g.wake
		if msg.abort {
			g.done = true
			return
		}
		func() {
			defer func() {
				if r := recover(); r != nil {
					if _, ok := r.(abortG); ok {
						g.done = true
						return
					}
					// failure inside goroutine: hand to main
					g.done = true
					s.fail = r
					s.cur = s.main
					s.main.wake <- wakeMsg{}
					return
				}
			}()
			fn()
			g.done = true
			s.exit(g)
		}()
	}()
}

func (s *Sched) makeRunnable(g *G) { s.runq = append(s.runq, g) }

// block suspends the current goroutine until made runnable and scheduled.
func (s *Sched) block() {
	g := s.cur
	if len(s.runq) == 0 {
		// everyone is blocked
		if g == s.main {
			panic(abortPath{kind: "deadlock", reason: "main goroutine blocked forever"})
		}
		s.cur = s.main
		s.main.wake <- wakeMsg{deadlock: true}
	} else {
		next := s.runq[0]
		s.runq = s.runq[1:]
		s.cur = next
		next.wake <- wakeMsg{}
	}
	msg := <-g.wake
	if msg.abort {
		panic(abortG{})
	}
	if g == s.main {
		if s.fail != nil {
			f := s.fail
			s.fail = nil
			panic(f)
		}
		if msg.deadlock {
			panic(abortPath{kind: "deadlock", reason: "main goroutine blocked forever"})
		}
	}
}

func (s *Sched) exit(g *G) {
	if len(s.runq) == 0 {
		s.cur = s.main
		s.main.wake <- wakeMsg{deadlock: true}
		return
	}
	next := s.runq[0]
	s.runq = s.runq[1:]
	s.cur = next
	next.wake <- wakeMsg{}
}

// finish is called by main when the harness returns: report live goroutines and kill them.
func (s *Sched) finish() (leaked []string) {
	for _, g := range s.all[1:] {
		if !g.done {
			leaked = append(leaked, g.name)
			g.wake <- wakeMsg{abort: true}
		}
	}
	s.wg.Wait()
	return
}

func (s *Sched) send(c *Chan, v Value) {
	if c == nil {
		s.block()
	}
	if c.closed {
		s.in.rtPanic("send on closed channel")
	}
	if len(c.recvq) > 0 {
		w := c.recvq[0]
		c.recvq = c.recvq[1:]
		w.val, w.ok = v, true
		s.makeRunnable(w.g)
		return
	}
	if len(c.buf) < c.cap {
		c.buf = append(c.buf, v)
		return
	}
	w := &waiter{g: s.cur, val: v}
	c.sendq = append(c.sendq, w)
	s.block()
	if w.closedPanic {
		s.in.rtPanic("send on closed channel")
	}
}

func (s *Sched) recv(c *Chan) (Value, bool) {
	if c == nil {
		s.block()
	}
	if len(c.buf) > 0 {
		v := c.buf[0]
		c.buf = c.buf[1:]
		if len(c.sendq) > 0 {
			w := c.sendq[0]
			c.sendq = c.sendq[1:]
			c.buf = append(c.buf, w.val)
			s.makeRunnable(w.g)
		}
		return v, true
	}
	if len(c.sendq) > 0 {
		w := c.sendq[0]
		c.sendq = c.sendq[1:]
		s.makeRunnable(w.g)
		return w.val, true
	}
	if c.closed {
		return copyVal(c.zero), false
	}
	w := &waiter{g: s.cur}
	c.recvq = append(c.recvq, w)
	s.block()
	return w.val, w.ok
}

func (s *Sched) closeChan(c *Chan) {
	if c.closed {
		s.in.rtPanic("close of closed channel")
	}
	c.closed = true
	for _, w := range c.recvq {
		w.val, w.ok = copyVal(c.zero), false
		s.makeRunnable(w.g)
	}
	c.recvq = nil
	for _, w := range c.sendq {
		w.closedPanic = true
		s.makeRunnable(w.g)
	}
	c.sendq = nil
}
