package main

import (
	"fmt"
	"math"
	"net/url"
	"path"
	"path/filepath"
	"reflect"
	"regexp"
	"sort"
	"strconv"
	"strings"
	"text/template"
	"unicode"
	"unicode/utf8"
)

// HostObj wraps an opaque native Go value (e.g. *regexp.Regexp) living in the host.
type HostObj struct{ V reflect.Value }

// hostFuncs are stdlib functions executed natively when every argument is concrete.
var hostFuncs = map[string]interface{}{
	"regexp.MustCompile":                  regexp.MustCompile,
	"regexp.Compile":                      regexp.Compile,
	"strconv.ParseInt":                    strconv.ParseInt,
	"strconv.ParseUint":                   strconv.ParseUint,
	"strconv.ParseFloat":                  strconv.ParseFloat,
	"strconv.Unquote":                     strconv.Unquote,
	"strconv.Quote":                       strconv.Quote,
	"strconv.Itoa":                        strconv.Itoa,
	"strconv.FormatInt":                   strconv.FormatInt,
	"strconv.FormatFloat":                 strconv.FormatFloat,
	"strconv.FormatBool":                  strconv.FormatBool,
	"strings.ToUpper":                     strings.ToUpper,
	"strings.ToLower":                     strings.ToLower,
	"strings.TrimSpace":                   strings.TrimSpace,
	"strings.Index":                       strings.Index,
	"strings.LastIndex":                   strings.LastIndex,
	"strings.IndexRune":                   strings.IndexRune,
	"strings.IndexByte":                   strings.IndexByte,
	"strings.Count":                       strings.Count,
	"strings.Contains":                    strings.Contains,
	"strings.ContainsAny":                 strings.ContainsAny,
	"strings.HasPrefix":                   strings.HasPrefix,
	"strings.HasSuffix":                   strings.HasSuffix,
	"strings.Replace":                     strings.Replace,
	"strings.Join":                        strings.Join,
	"strings.Split":                       strings.Split,
	"strings.Repeat":                      strings.Repeat,
	"sort.Strings":                        sort.Strings,
	"unicode.IsLetter":                    unicode.IsLetter,
	"unicode.IsDigit":                     unicode.IsDigit,
	"unicode.IsSpace":                     unicode.IsSpace,
	"unicode.IsPrint":                     unicode.IsPrint,
	"unicode.IsUpper":                     unicode.IsUpper,
	"unicode.ToLower":                     unicode.ToLower,
	"unicode.ToUpper":                     unicode.ToUpper,
	"unicode.IsLower":                     unicode.IsLower,
	"strconv.FormatUint":                  strconv.FormatUint,
	"strconv.Atoi":                        strconv.Atoi,
	"strconv.ParseBool":                   strconv.ParseBool,
	"strconv.AppendInt":                   strconv.AppendInt,
	"strings.Title":                       strings.Title,
	"strings.Fields":                      strings.Fields,
	"strings.TrimLeft":                    strings.TrimLeft,
	"strings.TrimRight":                   strings.TrimRight,
	"strings.Trim":                        strings.Trim,
	"strings.TrimPrefix":                  strings.TrimPrefix,
	"strings.TrimSuffix":                  strings.TrimSuffix,
	"strings.EqualFold":                   strings.EqualFold,
	"strings.IndexAny":                    strings.IndexAny,
	"strings.LastIndexByte":               strings.LastIndexByte,
	"strings.ReplaceAll":                  strings.ReplaceAll,
	"strings.SplitN":                      strings.SplitN,
	"strings.ContainsRune":                strings.ContainsRune,
	"unicode/utf8.DecodeRuneInString":     utf8.DecodeRuneInString,
	"unicode/utf8.DecodeRune":             utf8.DecodeRune,
	"unicode/utf8.DecodeLastRuneInString": utf8.DecodeLastRuneInString,
	"unicode/utf8.RuneLen":                utf8.RuneLen,
	"unicode/utf8.RuneCountInString":      utf8.RuneCountInString,
	"unicode/utf8.RuneCount":              utf8.RuneCount,
	"unicode/utf8.ValidString":            utf8.ValidString,
	"unicode/utf8.Valid":                  utf8.Valid,
	"unicode/utf8.ValidRune":              utf8.ValidRune,
	"unicode/utf8.FullRune":               utf8.FullRune,
	"unicode/utf8.AppendRune":             utf8.AppendRune,
	"text/template.HTMLEscapeString":      template.HTMLEscapeString,
	"text/template.JSEscapeString":        template.JSEscapeString,
	"net/url.QueryEscape":                 url.QueryEscape,
	"net/url.QueryUnescape":               url.QueryUnescape,
	"net/url.PathEscape":                  url.PathEscape,
	"math.Pow":                            math.Pow,
	"math.Min":                            math.Min,
	"math.Max":                            math.Max,
	"math.Trunc":                          math.Trunc,
	"math.Mod":                            math.Mod,
	"math.IsInf":                          math.IsInf,
	"math.Log10":                          math.Log10,
	"math.Sqrt":                           math.Sqrt,
	"path/filepath.Base":                  filepath.Base,
	"path/filepath.Ext":                   filepath.Ext,
	"path/filepath.Join":                  filepath.Join,
	"path.Base":                           path.Base,
}

var errType = reflect.TypeOf((*error)(nil)).Elem()

// hostConcretizeInts lists host functions whose symbolic integer arguments are concretised
// (forking over feasible values) instead of giving up.
var hostConcretizeInts = map[string]bool{
	"strconv.Itoa": true, "strconv.FormatInt": true, "strconv.FormatUint": true, "strings.Repeat": true,
}

func (in *Interp) toHost(v Value, rt reflect.Type, conc bool) (reflect.Value, bool) {
	if t, ok := v.(*Term); ok && conc && t.S.K == SBV {
		switch rt.Kind() {
		case reflect.Int, reflect.Int8, reflect.Int16, reflect.Int32, reflect.Int64:
			v = sext(in.concretize(t, "host call argument"), t.S.W)
		case reflect.Uint, reflect.Uint8, reflect.Uint16, reflect.Uint32, reflect.Uint64:
			v = in.concretize(t, "host call argument")
		}
	}
	switch rt.Kind() {
	case reflect.String:
		if s, ok := v.(string); ok {
			return reflect.ValueOf(s).Convert(rt), true
		}
	case reflect.Bool:
		if b, ok := v.(bool); ok {
			return reflect.ValueOf(b).Convert(rt), true
		}
	case reflect.Int, reflect.Int8, reflect.Int16, reflect.Int32, reflect.Int64:
		if i, ok := v.(int64); ok {
			return reflect.ValueOf(i).Convert(rt), true
		}
	case reflect.Uint, reflect.Uint8, reflect.Uint16, reflect.Uint32, reflect.Uint64:
		if i, ok := v.(uint64); ok {
			return reflect.ValueOf(i).Convert(rt), true
		}
	case reflect.Float64, reflect.Float32:
		if f, ok := v.(float64); ok {
			return reflect.ValueOf(f).Convert(rt), true
		}
	case reflect.Slice:
		xs, ok := v.([]Value)
		if !ok {
			return reflect.Value{}, false
		}
		out := reflect.MakeSlice(rt, len(xs), len(xs))
		for i, x := range xs {
			e, ok := in.toHost(x, rt.Elem(), false)
			if !ok {
				return reflect.Value{}, false
			}
			out.Index(i).Set(e)
		}
		if xs == nil {
			return reflect.Zero(rt), true
		}
		return out, true
	case reflect.Ptr, reflect.Struct, reflect.Interface:
		if h, ok := v.(HostObj); ok && h.V.Type().AssignableTo(rt) {
			return h.V, true
		}
	}
	return reflect.Value{}, false
}

func (in *Interp) fromHost(rv reflect.Value) Value {
	switch rv.Kind() {
	case reflect.String:
		return rv.String()
	case reflect.Bool:
		return rv.Bool()
	case reflect.Int, reflect.Int8, reflect.Int16, reflect.Int32, reflect.Int64:
		return rv.Int()
	case reflect.Uint, reflect.Uint8, reflect.Uint16, reflect.Uint32, reflect.Uint64:
		return rv.Uint()
	case reflect.Float64, reflect.Float32:
		return rv.Float()
	case reflect.Slice:
		if rv.IsNil() {
			return []Value(nil)
		}
		out := make([]Value, rv.Len())
		for i := range out {
			out[i] = in.fromHost(rv.Index(i))
		}
		return out
	case reflect.Interface:
		if rv.Type() == errType {
			if rv.IsNil() {
				return Iface{}
			}
			return in.call(nil, in.lookupFunc("errors", "New"), []Value{rv.Interface().(error).Error()})
		}
	}
	return HostObj{rv}
}

// tryHostCall executes name natively if registered and all args are concrete.
func (in *Interp) tryHostCall(name string, recvMethod string, args []Value) (Value, bool) {
	var fv reflect.Value
	if recvMethod != "" {
		h, ok := args[0].(HostObj)
		if !ok {
			return nil, false
		}
		fv = h.V.MethodByName(recvMethod)
		if !fv.IsValid() {
			panic("host method not found: " + name)
		}
		args = args[1:]
	} else {
		f, ok := hostFuncs[name]
		if !ok {
			return nil, false
		}
		fv = reflect.ValueOf(f)
	}
	ft := fv.Type()
	conc := hostConcretizeInts[name]
	hargs := make([]reflect.Value, len(args))
	for i, a := range args {
		var pt reflect.Type
		if ft.IsVariadic() && i >= ft.NumIn()-1 {
			pt = ft.In(ft.NumIn() - 1)
			if i == ft.NumIn()-1 && len(args) == ft.NumIn() {
				// variadic passed as slice by SSA
				hv, ok := in.toHost(a, pt, conc)
				if !ok {
					return nil, false
				}
				hargs[i] = hv
				continue
			}
			pt = pt.Elem()
		} else {
			pt = ft.In(i)
		}
		hv, ok := in.toHost(a, pt, conc)
		if !ok {
			return nil, false
		}
		hargs[i] = hv
	}
	var res []reflect.Value
	if ft.IsVariadic() {
		res = fv.CallSlice(hargs)
	} else {
		res = fv.Call(hargs)
	}
	in.steps += hostCost(name, recvMethod, args, res)
	// write back in-place mutations of slices (e.g. sort.Strings)
	for i, a := range args {
		if xs, ok := a.([]Value); ok && hargs[i].Kind() == reflect.Slice {
			for j := range xs {
				xs[j] = in.fromHost(hargs[i].Index(j))
			}
		}
	}
	switch len(res) {
	case 0:
		return nil, true
	case 1:
		return in.fromHost(res[0]), true
	}
	t := make(Tuple, len(res))
	for i, r := range res {
		t[i] = in.fromHost(r)
	}
	return t, true
}

var _ = fmt.Sprint

// hostCost: cost model for library functions executed natively, so that the step bound and the
// linear-time checks also see the work done inside them. Scanning functions are charged the
// number of bytes they look at (up to the match for the Index family), prefix/suffix tests the
// length of the prefix, decoding of one rune a constant; anything else (regexp methods included)
// one step per byte of its string and slice arguments.
func hostCost(name, method string, args []Value, res []reflect.Value) int {
	size := func(v Value) int {
		switch x := v.(type) {
		case string:
			return len(x)
		case []Value:
			return len(x)
		}
		return 0
	}
	total := 0
	for _, a := range args {
		total += size(a)
	}
	if method != "" {
		// regexp Find*Index methods stop at the end of the first match
		if len(res) == 1 && res[0].Kind() == reflect.Slice && res[0].Type().Elem().Kind() == reflect.Int && res[0].Len() >= 2 {
			return int(res[0].Index(1).Int()) + 1
		}
		return total
	}
	switch name {
	case "strings.HasPrefix", "strings.HasSuffix", "strings.TrimPrefix", "strings.TrimSuffix", "strings.EqualFold":
		if len(args) == 2 {
			return size(args[1]) + 1
		}
	case "strings.Index", "strings.IndexByte", "strings.IndexRune", "strings.IndexAny", "strings.Contains", "strings.ContainsAny", "strings.ContainsRune":
		if len(res) == 1 && res[0].Kind() == reflect.Int && res[0].Int() >= 0 && len(args) > 0 {
			return int(res[0].Int()) + total - size(args[0]) + 1
		}
	case "unicode/utf8.DecodeRuneInString", "unicode/utf8.DecodeRune", "unicode/utf8.DecodeLastRuneInString", "unicode/utf8.RuneLen",
		"unicode/utf8.ValidRune", "unicode/utf8.FullRune", "unicode/utf8.AppendRune":
		return 1
	}
	return total
}
