package soymsg

import (
	"strconv"

	"github.com/robfig/soy/ast"
	"github.com/robfig/soy/parse"
)

// ---- reference: transliteration of the official Java SoyMsgIdComputer ----

func refMix(a, b, c uint32) (uint32, uint32, uint32) {
	a -= b
	a -= c
	a ^= (c >> 13)
	b -= c
	b -= a
	b ^= (a << 8)
	c -= a
	c -= b
	c ^= (b >> 13)
	a -= b
	a -= c
	a ^= (c >> 12)
	b -= c
	b -= a
	b ^= (a << 16)
	c -= a
	c -= b
	c ^= (b >> 5)
	a -= b
	a -= c
	a ^= (c >> 3)
	b -= c
	b -= a
	b ^= (a << 10)
	c -= a
	c -= b
	c ^= (b >> 15)
	return a, b, c
}

func refWord(s []byte, i int) uint32 {
	return (uint32(s[i+0]&0xff) << 0) | (uint32(s[i+1]&0xff) << 8) | (uint32(s[i+2]&0xff) << 16) | (uint32(s[i+3]&0xff) << 24)
}

func refHash32(str []byte, c uint32) uint32 {
	var a, b uint32 = 0x9e3779b9, 0x9e3779b9
	limit := len(str)
	i := 0
	for ; i+12 <= limit; i += 12 {
		a += refWord(str, i)
		b += refWord(str, i+4)
		c += refWord(str, i+8)
		a, b, c = refMix(a, b, c)
	}
	c += uint32(limit)
	rem := limit - i
	if rem >= 11 {
		c += uint32(str[i+10]&0xff) << 24
	}
	if rem >= 10 {
		c += uint32(str[i+9]&0xff) << 16
	}
	if rem >= 9 {
		c += uint32(str[i+8]&0xff) << 8
	}
	if rem >= 8 {
		b += uint32(str[i+7]&0xff) << 24
	}
	if rem >= 7 {
		b += uint32(str[i+6]&0xff) << 16
	}
	if rem >= 6 {
		b += uint32(str[i+5]&0xff) << 8
	}
	if rem >= 5 {
		b += uint32(str[i+4] & 0xff)
	}
	if rem >= 4 {
		a += uint32(str[i+3]&0xff) << 24
	}
	if rem >= 3 {
		a += uint32(str[i+2]&0xff) << 16
	}
	if rem >= 2 {
		a += uint32(str[i+1]&0xff) << 8
	}
	if rem >= 1 {
		a += uint32(str[i+0] & 0xff)
	}
	_, _, c = refMix(a, b, c)
	return c
}

func refFingerprint(str []byte) uint64 {
	hi := refHash32(str, 0)
	lo := refHash32(str, 102072)
	if hi == 0 && (lo == 0 || lo == 1) {
		hi ^= 0x130f9bef
		lo ^= 0x94a0a928
	}
	return (uint64(hi) << 32) | uint64(lo)
}

func refID(fpstr, meaning []byte) uint64 {
	fp := refFingerprint(fpstr)
	if len(meaning) > 0 {
		var top uint64
		if fp>>63 != 0 {
			top = 1
		}
		fp = (fp << 1) + top + refFingerprint(meaning)
	}
	return fp & 0x7fffffffffffffff
}

// H_fpKnown validates the reference against official ids pinned in soy's own tests
// (closure-templates examples_extracted.xlf).
func H_fpKnown() {
	verifAssert(refID([]byte("Archive"), []byte("noun")) == 7224011416745566687, "harness: reference id of Archive/noun")
	verifAssert(refID([]byte("Archive"), []byte("verb")) == 4826315192146469447, "harness: reference id of Archive/verb")
	verifAssert(refID([]byte("A trip was taken."), nil) == 3329840836245051515, "harness: reference id of 'A trip was taken.'")
	verifAssert(refID([]byte("Your favorite keyword"), nil) == 2209690285855487595, "harness: reference id")
	verifAssert(refID([]byte("Help"), nil) == 7911416166208830577, "harness: reference id of Help")
	verifAssert(refID([]byte("NAME took a trip to DESTINATION."), nil) == 768490705511913603, "harness: reference id with placeholders")
	verifAssert(refID([]byte("{EGGS_1,plural,=1{You have one egg}other{You have {EGGS_2} eggs}}"), nil) == 176798647517908084, "harness: reference id of plural")
}

// H_fp: fingerprint == official fingerprint for every byte string of length n.
func H_fp(n int) {
	s := verifBytes(n)
	verifObserve("in", string(s))
	verifAssert(fingerprint(s) == refFingerprint(s), "fingerprint differs from the official algorithm")
}

func rawMsg(text string, desc, meaning string) *ast.MsgNode {
	return &ast.MsgNode{Meaning: meaning, Desc: desc, Body: &ast.ListNode{Nodes: []ast.Node{&ast.RawTextNode{Text: []byte(text)}}}}
}

// H_id: calcID of a raw-text message with symbolic text (nt bytes), description (2 bytes) and
// meaning (nm bytes): equals the official id, ignores the description, top bit clear.
func H_id(nt, nm int) {
	text, meaning := verifString(nt), verifString(nm)
	d1, d2 := verifString(2), verifString(2)
	m1, m2 := rawMsg(text, d1, meaning), rawMsg(text, d2, meaning)
	id1, id2 := calcID(m1), calcID(m2)
	verifObserve("text", text)
	verifObserve("meaning", meaning)
	verifAssert(id1 == id2, "message id depends on the description")
	verifAssert(id1>>63 == 0, "message id has the top bit set")
	verifAssert(id1 == refID([]byte(text), []byte(meaning)), "message id differs from the official algorithm")
}

// H_idMeaning: the id of a structured message (placeholders, html tags, plural; msg indexes
// c10Msgs) with a symbolic meaning of nm bytes and a symbolic description: the official id of its
// placeholder string and meaning, independent of the description, different meanings kept apart
// exactly as the official combination does.
func H_idMeaning(msg, nm int) {
	meaning := verifString(nm)
	m1, m2 := c10Parse(msg), c10Parse(msg)
	m1.Meaning, m2.Meaning = meaning, meaning
	m1.Desc, m2.Desc = verifString(1), "other"
	SetPlaceholdersAndID(m1)
	SetPlaceholdersAndID(m2)
	verifObserve("msg", c10Msgs[msg])
	verifObserve("meaning", meaning)
	verifAssert(m1.ID == m2.ID, "message id depends on the description")
	verifAssert(m1.ID>>63 == 0, "message id has the top bit set")
	verifAssert(m1.ID == refID([]byte(c10FpString(m1)), []byte(meaning)), "id of a message with a meaning differs from the official algorithm")
}

// ---- placeholder names ----

var c10Msgs = []string{
	"{$a}{$a}{$b}",                                                 // 0 equal expressions share one name
	"{$a.x}{$b.x}{$a.x}",                                           // 1 same base name, distinct placeholders
	"{$a.x}{$b.x}{$c.x}{$d.x}",                                     // 2 four distinct with one base name
	"<a href=\"x\">{$fooBar}</a><br/>{$foo_bar}",                   // 3 tags and case conversion
	"{plural $n}{case 1}one {$n}{default}{$n} many{/plural}",       // 4
	"{f($a)}{$a + 1}{$a[0]}{$b.x}",                                 // 5 XXX fallbacks
	"{$a.x}{$b.y}{$c.x}{$d.y}",                                     // 6 two colliding groups
	"<b>{$a}</b> <b>x</b>{$foo2bar}",                               // 7 repeated tags
	"{$a.x}{$b.x}{$x_1}",                                           // 8 suffixed name collides with another base name
	"{$x_1}{$a.x}{$b.x}",                                           // 9 the same, other order
	"{$a|escapeUri}{$a}{$a|id}{$a}",                                // 10 one expression under different directives: distinct placeholders
	"<a href=\"x\">{$a}</a> <a href=\"y\">{$b}</a>",                // 11 two link tags that differ in an attribute
	"{$a|truncate:5} is short for {$a|truncate:40}{$a|truncate:5}", // 12 one directive with different arguments
	"{$a.b}{$a?.b}{$a['b']}{$a.b}",                                 // 13 access styles of one field
	"1 < 2 <b>x</b> and a <= b <br/> c",                            // 14 '<' that does not begin a tag, before real tags
	"<<a href=\"u\">>t</a> < </b>",                                 // 15
	"{plural $n}{case 0}none{case 2}two{case 1}one {$n}{default}{$n} many{/plural}", // 16 several explicit cases
	"{$x1}{$x2} or {$a.x}/{$b.x}",                                     // 17 two consecutive suffixed names are taken before a base name needs suffixes
	"{$x1}{$x3} or {$a.x}/{$b.x}/{$c.x}",                              // 18 taken names with a gap
	"{plural $c[0]}{case 1}one {$c[0]}{default}{$c[0]} many{/plural}", // 19 one nameless expression as plural selector (NUM) and as print (XXX)
}

// the official placeholder string of some messages (what their id is the fingerprint of)
var c10Official = map[int]string{
	3:  "{START_LINK}{FOO_BAR_1}{END_LINK}{BREAK}{FOO_BAR_2}",
	7:  "{START_BOLD}{A}{END_BOLD} {START_BOLD}x{END_BOLD}{FOO_2_BAR}",
	11: "{START_LINK_1}{A}{END_LINK} {START_LINK_2}{B}{END_LINK}",
	14: "1 < 2 {START_BOLD}x{END_BOLD} and a <= b {BREAK} c",
	15: "<{START_LINK}>t{END_LINK} < {END_BOLD}",
}

// wellDefined: messages on which the official algorithm gives every placeholder a name
// (8 and 9 make it overwrite an entry; only order independence is claimed there).
func c10WellDefined(i int) bool { return i != 8 && i != 9 }

func c10Parse(i int) *ast.MsgNode {
	src := "{namespace n}\n/** */\n{template .t}\n{msg desc=\"d\"}" + c10Msgs[i] + "{/msg}\n{/template}\n"
	f, err := parse.SoyFile("m.soy", src)
	if err != nil {
		verifAssert(false, "harness: message does not parse: "+err.Error())
	}
	for _, n := range f.Body {
		if t, ok := n.(*ast.TemplateNode); ok {
			return t.Body.Nodes[0].(*ast.MsgNode)
		}
	}
	verifAssert(false, "harness: no template")
	return nil
}

func c10Units(n ast.ParentNode, out []ast.Node) []ast.Node {
	for _, c := range n.Children() {
		switch c := c.(type) {
		case *ast.MsgPlaceholderNode:
			out = append(out, c)
		case *ast.MsgPluralNode:
			out = append(out, c)
			for _, pc := range c.Cases {
				out = c10Units(pc.Body, out)
			}
			out = c10Units(c.Default, out)
		}
	}
	return out
}

func c10Name(u ast.Node) string {
	switch u := u.(type) {
	case *ast.MsgPlaceholderNode:
		return u.Name
	case *ast.MsgPluralNode:
		return u.VarName
	}
	return ""
}

func c10Names(m *ast.MsgNode) string {
	s := ""
	for _, u := range c10Units(m.Body, nil) {
		switch u := u.(type) {
		case *ast.MsgPlaceholderNode:
			s += u.Name + ";"
		case *ast.MsgPluralNode:
			s += u.VarName + ";"
		}
	}
	return s
}

// refNames: the official algorithm (MsgNode.genSubstUnitInfo), whose maps iterate in insertion
// order: base names in order of first appearance; placeholders with the same base name and the
// same source text share a representative; a base name with several representatives numbers
// them _1, _2, ... skipping names already taken.
func refNames(m *ast.MsgNode) string {
	// breadth-first like the implementation: top-level units, then the bodies of plurals
	var queue []ast.Node
	for _, c := range m.Body.Children() {
		switch c.(type) {
		case *ast.MsgPlaceholderNode, *ast.MsgPluralNode:
			queue = append(queue, c)
		}
	}
	var bases []string
	reps := map[string][]ast.Node{}
	repOf := map[ast.Node]ast.Node{}
	var order []ast.Node
	for len(queue) > 0 {
		node := queue[0]
		queue = queue[1:]
		order = append(order, node)
		var base string
		switch node := node.(type) {
		case *ast.MsgPlaceholderNode:
			base = genBasePlaceholderName(node.Body, "XXX")
		case *ast.MsgPluralNode:
			queue = append(queue, pluralCaseBodies(node)...)
			base = genBasePlaceholderName(node.Value, "NUM")
		}
		if _, ok := reps[base]; !ok {
			bases = append(bases, base)
		}
		found := false
		for _, o := range reps[base] {
			if o.String() == node.String() {
				repOf[node] = o
				found = true
				break
			}
		}
		if !found {
			reps[base] = append(reps[base], node)
			repOf[node] = node
		}
	}
	taken := map[string]bool{}
	nameOf := map[ast.Node]string{}
	for _, base := range bases {
		nodes := reps[base]
		if len(nodes) == 1 {
			taken[base] = true
			nameOf[nodes[0]] = base
			continue
		}
		next := 1
		for _, n := range nodes {
			for {
				nm := base + "_" + strconv.Itoa(next)
				if !taken[nm] {
					taken[nm] = true
					nameOf[n] = nm
					break
				}
				next++
			}
		}
	}
	s := ""
	for _, u := range c10Units(m.Body, nil) {
		s += nameOf[repOf[u]] + ";"
	}
	return s
}

// H_names: placeholder names and the resulting id under an arbitrary iteration order of the
// site-th map loop of setPlaceholderNames (site -1: insertion order everywhere).
func H_names(msg, site int) {
	ref := c10Parse(msg)
	SetPlaceholdersAndID(ref) // insertion-order run
	if site == 4 {
		// (site 4: any map loop of the parser's plural handling)
		verifMapOrder("func:parsePlural#0")
	}
	m := c10Parse(msg)
	if site >= 0 && site < 4 {
		verifMapOrder("func:setPlaceholderNames#" + strconv.Itoa(site))
	}
	SetPlaceholdersAndID(m)
	verifMapOrder("")
	names := c10Names(m)
	verifObserve("msg", c10Msgs[msg])
	if site < 0 {
		verifObserve("names", names)
	}
	verifAssert(names == c10Names(ref), "placeholder names depend on map iteration order")
	units := c10Units(m.Body, nil)
	for i, u := range units {
		verifAssert(c10Name(u) != "", "a placeholder has no name")
		for _, v := range units[:i] {
			verifAssert((c10Name(u) == c10Name(v)) == (u.String() == v.String()), "names do not separate exactly the distinct placeholders")
		}
	}
	verifAssert(m.ID == ref.ID, "message id depends on map iteration order")
	if want, ok := c10Official[msg]; ok {
		verifAssert(PlaceholderString(m) == want, "placeholder string differs from the official one (which tags and prints are placeholders, under which names)")
	}
	if c10WellDefined(msg) {
		verifAssert(names == refNames(m), "placeholder names differ from the official algorithm")
		verifAssert(m.ID == refID([]byte(c10FpString(m)), nil), "message id is not the official fingerprint of the placeholder string")
	}
}

// c10FpString: the string the official algorithm fingerprints (braced placeholders only inside plurals).
func c10FpString(m *ast.MsgNode) string {
	return c10Fp(m.Body, false)
}

func c10Fp(n ast.ParentNode, braces bool) string {
	s := ""
	for _, c := range n.Children() {
		switch c := c.(type) {
		case *ast.RawTextNode:
			s += string(c.Text)
		case *ast.MsgPlaceholderNode:
			if braces {
				s += "{" + c.Name + "}"
			} else {
				s += c.Name
			}
		case *ast.MsgPluralNode:
			s += "{" + c.VarName + ",plural,"
			for _, pc := range c.Cases {
				s += "=" + strconv.Itoa(pc.Value) + "{" + c10Fp(pc.Body, true) + "}"
			}
			s += "other{" + c10Fp(c.Default, true) + "}}"
		}
	}
	return s
}

// ---- base names: identifier -> UPPER_UNDERSCORE (official BaseUtils.convertToUpperUnderscore) ----

func c10Letter(c byte) bool { return c >= 'a' && c <= 'z' || c >= 'A' && c <= 'Z' }
func c10Upper(c byte) bool  { return c >= 'A' && c <= 'Z' }
func c10Lower(c byte) bool  { return c >= 'a' && c <= 'z' }
func c10Digit(c byte) bool  { return c >= '0' && c <= '9' }

// refUpperUnderscore: the conversion as a sequence of left-to-right, non-overlapping rewriting
// passes: strip leading/trailing underscores; collapse runs of underscores; insert an underscore
// between a letter and an upper-case letter that starts a lower-case word, between a letter and a
// digit, between a digit and a letter; upper-case everything.
func refUpperUnderscore(id string) string {
	lo, hi := 0, len(id)
	for lo < hi && id[lo] == '_' {
		lo++
	}
	for hi > lo && id[hi-1] == '_' {
		hi--
	}
	s := id[lo:hi]
	var t []byte
	for i := 0; i < len(s); i++ {
		if s[i] == '_' && i+1 < len(s) && s[i+1] == '_' {
			continue
		}
		t = append(t, s[i])
	}
	pass := func(in []byte, match func(b []byte, i int) int) []byte {
		var out []byte
		for i := 0; i < len(in); {
			if n := match(in, i); n > 0 {
				out = append(out, in[i], '_')
				out = append(out, in[i+1:i+n]...)
				i += n
			} else {
				out = append(out, in[i])
				i++
			}
		}
		return out
	}
	t = pass(t, func(b []byte, i int) int {
		if i+2 < len(b) && c10Letter(b[i]) && c10Upper(b[i+1]) && c10Lower(b[i+2]) {
			return 3
		}
		return 0
	})
	t = pass(t, func(b []byte, i int) int {
		if i+1 < len(b) && c10Letter(b[i]) && c10Digit(b[i+1]) {
			return 2
		}
		return 0
	})
	t = pass(t, func(b []byte, i int) int {
		if i+1 < len(b) && c10Digit(b[i]) && c10Letter(b[i+1]) {
			return 2
		}
		return 0
	})
	for i := range t {
		if c10Lower(t[i]) {
			t[i] -= 'a' - 'A'
		}
	}
	return string(t)
}

var c10IdentAlphabet = []byte("abAB12_")

// H_baseName: every identifier of n characters over {a,b,A,B,1,2,_} (the conversion runs
// regexps, so the text is concrete per path): toUpperUnderscore equals the reference, and the
// base name of {$id}, {$x.id} is that.
func H_baseName(n int) {
	// any identifier characters (the five regular expressions of toUpperUnderscore run on the
	// symbolic bytes through the engine's regexp matcher)
	id := verifString(n)
	for i := 0; i < len(id); i++ {
		c := id[i]
		verifAssume(c == '_' || c >= '0' && c <= '9' || c >= 'a' && c <= 'z' || c >= 'A' && c <= 'Z')
	}
	verifAssume(!(id[0] >= '0' && id[0] <= '9'))
	verifObserve("id", id)
	want := refUpperUnderscore(id)
	verifAssert(toUpperUnderscore(id) == want, "base placeholder name differs from the official conversion for "+id)
	verifAssert(genBasePlaceholderName(&ast.PrintNode{Arg: &ast.DataRefNode{Key: id}}, "XXX") == want, "base name of a variable")
	verifAssert(genBasePlaceholderName(&ast.PrintNode{Arg: &ast.DataRefNode{Key: "x", Access: []ast.Node{&ast.DataRefKeyNode{Key: id}}}}, "XXX") == want, "base name of a field")
	verifAssert(genBasePlaceholderName(&ast.PrintNode{Arg: &ast.DataRefNode{Key: id, Access: []ast.Node{&ast.DataRefIndexNode{Index: 0}}}}, "XXX") == "XXX", "base name of an indexed reference")
}

var c10TagAlphabet = []byte("abipZ1-:_ ")

var c10Pretty = map[string]string{"a": "link", "br": "break", "b": "bold", "i": "italic", "li": "item", "ol": "ordered_list",
	"ul": "unordered_list", "p": "paragraph", "img": "image", "em": "emphasis"}

// H_tagName: the placeholder base name of an html tag (form 0 <n>, 1 </n>, 2 <n/>, 3 <n x="1">)
// whose name part is n characters over {a,b,i,p,Z,1,-,:,_,space}: START_/END_/"" + the official
// pretty name or the leading alphanumeric run of the name, upper-cased with the official
// underscore rules.
func H_tagName(n, form int) {
	b := make([]byte, n)
	for i := range b {
		b[i] = c10TagAlphabet[verifChoose(len(c10TagAlphabet))]
	}
	name := string(b)
	first := name[0]
	if !(first >= 'a' && first <= 'z' || first >= 'A' && first <= 'Z') {
		return // not a tag the parser produces
	}
	var text, kind string
	switch form {
	case 0:
		text, kind = "<"+name+">", "START_"
	case 1:
		text, kind = "</"+name+">", "END_"
	case 2:
		text, kind = "<"+name+"/>", ""
	case 3:
		text, kind = "<"+name+" x=\"1\">", "START_"
	}
	j := 0
	for j < len(name) && (name[j] >= 'a' && name[j] <= 'z' || name[j] >= 'A' && name[j] <= 'Z' || name[j] >= '0' && name[j] <= '9') {
		j++
	}
	tag := ""
	for i := 0; i < j; i++ {
		c := name[i]
		if c >= 'A' && c <= 'Z' {
			c += 'a' - 'A'
		}
		tag += string(c)
	}
	if p, ok := c10Pretty[tag]; ok {
		tag = p
	}
	verifObserve("tag", text)
	got := genBasePlaceholderName(&ast.MsgHtmlTagNode{Text: []byte(text)}, "XXX")
	verifAssert(got == refUpperUnderscore(kind+tag), "placeholder base name of an html tag differs from the official one")
}
