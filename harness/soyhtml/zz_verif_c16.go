package soyhtml

import (
	"unicode/utf8"

	"github.com/robfig/soy/data"
)

func c16Apply(name string, v data.Value, args ...data.Value) (out string, failed bool) {
	defer func() {
		if r := recover(); r != nil {
			failed = true
		}
	}()
	return PrintDirectives[name].Apply(v, args).String(), false
}

func c16Hex(c byte) int {
	switch {
	case c >= '0' && c <= '9':
		return int(c - '0')
	case c >= 'A' && c <= 'F':
		return int(c-'A') + 10
	case c >= 'a' && c <= 'f':
		return int(c-'a') + 10
	}
	return -1
}

// H_escapeUri: output over URL-safe characters only; percent-decoding returns the value.
func H_escapeUri(n int) {
	s := verifString(n)
	out, failed := c16Apply("escapeUri", data.String(s))
	verifObserve("s", s)
	verifObserve("out", out)
	verifAssert(!failed, "escapeUri panicked")
	var dec []byte
	for i := 0; i < len(out); i++ {
		c := out[i]
		safe := c >= 'a' && c <= 'z' || c >= 'A' && c <= 'Z' || c >= '0' && c <= '9' || c == '-' || c == '_' || c == '.' || c == '~' || c == '+' || c == '%'
		verifAssert(safe, "escapeUri output contains a character that is not URL-safe")
		switch c {
		case '+':
			dec = append(dec, ' ')
		case '%':
			verifAssert(i+2 < len(out) && c16Hex(out[i+1]) >= 0 && c16Hex(out[i+2]) >= 0, "escapeUri output has a malformed percent escape")
			dec = append(dec, byte(c16Hex(out[i+1])<<4|c16Hex(out[i+2])))
			i += 2
		default:
			dec = append(dec, c)
		}
	}
	verifAssert(string(dec) == s, "escapeUri output does not percent-decode to the value")
}

// refJSString decodes the body of an ECMAScript string literal; ok=false when the text cannot be
// placed between quotes in a script as one literal (raw quote, backslash problems, raw line
// terminators or control characters, a raw '<' that could close a script element).
func refJSString(t string) (string, bool) {
	var out []byte
	for i := 0; i < len(t); i++ {
		c := t[i]
		switch {
		case c == '\'' || c == '"' || c == '<' || c == '>' || c == '&' || c == '\n' || c == '\r' || c < 0x20:
			return "", false
		case c == 0xE2 && i+2 < len(t) && t[i+1] == 0x80 && (t[i+2] == 0xA8 || t[i+2] == 0xA9):
			return "", false // raw U+2028 / U+2029 are line terminators
		case c != '\\':
			out = append(out, c)
		default:
			if i+1 >= len(t) {
				return "", false
			}
			i++
			switch t[i] {
			case '\\', '\'', '"', '/':
				out = append(out, t[i])
			case 'n':
				out = append(out, '\n')
			case 'r':
				out = append(out, '\r')
			case 't':
				out = append(out, '\t')
			case 'b':
				out = append(out, '\b')
			case 'f':
				out = append(out, '\f')
			case 'x':
				if i+2 >= len(t) || c16Hex(t[i+1]) < 0 || c16Hex(t[i+2]) < 0 {
					return "", false
				}
				out = utf8.AppendRune(out, rune(c16Hex(t[i+1])<<4|c16Hex(t[i+2])))
				i += 2
			case 'u':
				if i+4 >= len(t) {
					return "", false
				}
				r := 0
				for j := 1; j <= 4; j++ {
					h := c16Hex(t[i+j])
					if h < 0 {
						return "", false
					}
					r = r<<4 | h
				}
				out = utf8.AppendRune(out, rune(r))
				i += 4
			default:
				return "", false
			}
		}
	}
	return string(out), true
}

// H_escapeJs: the output between quotes is one well-formed JS string literal that evaluates to
// the value (n bytes, ASCII incl. controls, plus optionally one multi-byte rune chosen from
// U+00E9, U+2028, U+2029, U+FEFF).
func H_escapeJs(n, extra int) {
	s := verifString(n)
	for i := 0; i < len(s); i++ {
		verifAssume(s[i] < 0x80)
	}
	switch extra {
	case 1:
		s += "\u00e9"
	case 2:
		s = "\u2028" + s
	case 3:
		s += "\u2029"
	case 4:
		s += "\ufeff"
	}
	out, failed := c16Apply("escapeJsString", data.String(s))
	verifObserve("s", s)
	verifObserve("out", out)
	verifAssert(!failed, "escapeJsString panicked")
	dec, ok := refJSString(out)
	verifAssert(ok, "escapeJsString output is not a well-formed, script-safe string literal body")
	verifAssert(dec == s, "escapeJsString output does not evaluate to the value")
}

// H_truncate: value unchanged when it fits; otherwise a prefix cut at a character boundary
// (+ "..." when the ellipsis applies), never longer than the limit, always valid UTF-8.
func H_truncate(n, k int, ell int) {
	s := verifString(n)
	verifAssume(utf8.ValidString(s))
	var out string
	var failed bool
	switch ell {
	case 0:
		out, failed = c16Apply("truncate", data.String(s), data.Int(k))
	case 1:
		out, failed = c16Apply("truncate", data.String(s), data.Int(k), data.Bool(true))
	case 2:
		out, failed = c16Apply("truncate", data.String(s), data.Int(k), data.Bool(false))
	}
	verifObserve("s", s)
	verifObserve("out", out)
	verifAssert(!failed, "truncate panicked")
	if len(s) <= k {
		verifAssert(out == s, "truncate changed a value that fits")
		return
	}
	verifAssert(len(out) <= k, "truncated value is longer than the limit")
	verifAssert(utf8.ValidString(out), "truncated value is not valid UTF-8")
	body := out
	if ell != 2 && k > 3 {
		verifAssert(len(out) >= 3 && out[len(out)-3:] == "...", "truncated value lacks the ellipsis")
		body = out[:len(out)-3]
	}
	verifAssert(len(body) <= len(s) && s[:len(body)] == body, "truncated value is not a prefix of the value")
}

func c16Strip(s, tag string) string {
	var out []byte
	for i := 0; i < len(s); {
		if len(s)-i >= len(tag) && s[i:i+len(tag)] == tag {
			i += len(tag)
			continue
		}
		out = append(out, s[i])
		i++
	}
	return string(out)
}

func c16Escape(s string) string {
	var out []byte
	for i := 0; i < len(s); i++ {
		switch s[i] {
		case '&':
			out = append(out, "&amp;"...)
		case '<':
			out = append(out, "&lt;"...)
		case '>':
			out = append(out, "&gt;"...)
		case '"':
			out = append(out, "&#34;"...)
		case '\'':
			out = append(out, "&#39;"...)
		default:
			out = append(out, s[i])
		}
	}
	return string(out)
}

// H_wordBreaks: insertWordBreaks:k changes nothing but break opportunities in the escaped text
// and never places a <wbr> inside a character reference.
func H_wordBreaks(n, k int) {
	s := verifString(n)
	for i := 0; i < len(s); i++ {
		verifAssume(s[i] < 0x80 && s[i] != 0)
	}
	out, failed := c16Apply("insertWordBreaks", data.String(s), data.Int(k))
	verifObserve("s", s)
	verifObserve("out", out)
	verifAssert(!failed, "insertWordBreaks panicked")
	verifAssert(c16Strip(out, "<wbr>") == c16Escape(s), "insertWordBreaks changed more than break opportunities")
	inRef := false
	for i := 0; i < len(out); i++ {
		if out[i] == '&' {
			inRef = true
		} else if out[i] == ';' {
			inRef = false
		} else if inRef && len(out)-i >= 5 && out[i:i+5] == "<wbr>" {
			verifAssert(false, "insertWordBreaks placed <wbr> inside a character reference")
		}
	}
}

// H_newlineToBr: changeNewlineToBr on every string of n bytes other than NUL (the regexp replacement
// is summarised by a Go model of the pattern, validated natively): removing <br> gives the escaped
// text without its line breaks, and the number of <br> equals the number of line breaks (CRLF
// counts once).
func H_newlineToBr(n int) {
	s := verifString(n)
	for i := 0; i < len(s); i++ {
		verifAssume(s[i] != 0)
	}
	out, failed := c16Apply("changeNewlineToBr", data.String(s))
	verifObserve("s", s)
	verifObserve("out", out)
	verifAssert(!failed, "changeNewlineToBr panicked")
	var noNL []byte
	breaks := 0
	for i := 0; i < len(s); i++ {
		switch {
		case s[i] == '\r' && i+1 < len(s) && s[i+1] == '\n':
			breaks++
			i++
		case s[i] == '\r' || s[i] == '\n':
			breaks++
		default:
			noNL = append(noNL, s[i])
		}
	}
	verifAssert(c16Strip(out, "<br>") == c16Escape(string(noNL)), "changeNewlineToBr changed more than line breaks")
	got := 0
	for i := 0; i+4 <= len(out); i++ {
		if out[i:i+4] == "<br>" {
			got++
		}
	}
	verifAssert(got == breaks, "changeNewlineToBr: number of <br> differs from the number of line breaks")
}

// H_chain: {$x|d1|d2} through the real parser and renderer for chains of two directives.
func H_chain(c int) {
	chains := []string{"|escapeUri|escapeJsString", "|truncate:2|escapeUri", "|insertWordBreaks:2|noAutoescape", "|escapeJsString|truncate:8", "|truncate:1,false|escapeHtml"}
	tofu := verifMustCompile("{namespace n}\n/** @param x */\n{template .t autoescape=\"false\"}\n{$x" + chains[c] + "}\n{/template}\n")
	x := verifString(2)
	verifAssume(x[0] < 0x80 && x[1] < 0x80 && x[0] != 0 && x[1] != 0)
	out, err := verifRender(tofu, "n.t", data.Map{"x": data.String(x)})
	verifObserve("x", x)
	verifObserve("out", out)
	verifAssert(err == nil, "directive chain failed")
	var want string
	a := func(name string, v string, args ...data.Value) string {
		r, _ := c16Apply(name, data.String(v), args...)
		return r
	}
	switch c {
	case 0:
		want = a("escapeJsString", a("escapeUri", x))
	case 1:
		want = a("escapeUri", a("truncate", x, data.Int(2)))
	case 2:
		want = a("insertWordBreaks", x, data.Int(2))
	case 3:
		want = a("truncate", a("escapeJsString", x), data.Int(8))
	case 4:
		want = a("escapeHtml", a("truncate", x, data.Int(1), data.Bool(false)))
	}
	verifAssert(out == want, "a directive chain is not the left-to-right composition of its directives")
}

// ---- |json ----

// jsonParse is a reference parser for the JSON subset the directive can emit for the harness
// values (null, booleans, small integers, strings, arrays, objects); returns the parsed value
// as Soy data and the rest of the input; ok=false on malformed input.
func jsonParse(s string) (data.Value, string, bool) {
	if len(s) == 0 {
		return nil, s, false
	}
	switch {
	case len(s) >= 4 && s[:4] == "null":
		return data.Null{}, s[4:], true
	case len(s) >= 4 && s[:4] == "true":
		return data.Bool(true), s[4:], true
	case len(s) >= 5 && s[:5] == "false":
		return data.Bool(false), s[5:], true
	case s[0] == '-' || s[0] >= '0' && s[0] <= '9':
		i, neg := 0, false
		if s[0] == '-' {
			neg, i = true, 1
		}
		n := 0
		st := i
		for i < len(s) && s[i] >= '0' && s[i] <= '9' {
			n = n*10 + int(s[i]-'0')
			i++
		}
		if i == st {
			return nil, s, false
		}
		if neg {
			n = -n
		}
		return data.Int(n), s[i:], true
	case s[0] == '"':
		var out []byte
		i := 1
		for ; i < len(s) && s[i] != '"'; i++ {
			c := s[i]
			if c < 0x20 {
				return nil, s, false // control characters must be escaped
			}
			if c != '\\' {
				out = append(out, c)
				continue
			}
			i++
			if i >= len(s) {
				return nil, s, false
			}
			switch s[i] {
			case '"', '\\', '/':
				out = append(out, s[i])
			case 'n':
				out = append(out, '\n')
			case 'r':
				out = append(out, '\r')
			case 't':
				out = append(out, '\t')
			case 'b':
				out = append(out, '\b')
			case 'f':
				out = append(out, '\f')
			case 'u':
				if i+4 >= len(s) {
					return nil, s, false
				}
				r := 0
				for j := 1; j <= 4; j++ {
					h := c16Hex(s[i+j])
					if h < 0 {
						return nil, s, false
					}
					r = r<<4 | h
				}
				out = utf8.AppendRune(out, rune(r))
				i += 4
			default:
				return nil, s, false // \x, \U, \a, \v ... are not JSON
			}
		}
		if i >= len(s) {
			return nil, s, false
		}
		return data.String(out), s[i+1:], true
	case s[0] == '[':
		l := data.List{}
		rest := s[1:]
		if len(rest) > 0 && rest[0] == ']' {
			return l, rest[1:], true
		}
		for {
			v, r, ok := jsonParse(rest)
			if !ok || len(r) == 0 {
				return nil, s, false
			}
			l = append(l, v)
			if r[0] == ']' {
				return l, r[1:], true
			}
			if r[0] != ',' {
				return nil, s, false
			}
			rest = r[1:]
		}
	case s[0] == '{':
		m := data.Map{}
		rest := s[1:]
		if len(rest) > 0 && rest[0] == '}' {
			return m, rest[1:], true
		}
		for {
			k, r, ok := jsonParse(rest)
			ks, isStr := k.(data.String)
			if !ok || !isStr || len(r) == 0 || r[0] != ':' {
				return nil, s, false
			}
			v, r2, ok := jsonParse(r[1:])
			if !ok || len(r2) == 0 {
				return nil, s, false
			}
			m[string(ks)] = v
			if r2[0] == '}' {
				return m, r2[1:], true
			}
			if r2[0] != ',' {
				return nil, s, false
			}
			rest = r2[1:]
		}
	}
	return nil, s, false
}

func jsonSame(a, b data.Value) bool {
	switch x := a.(type) {
	case data.Null, data.Undefined:
		_, ok := b.(data.Null)
		return ok
	case data.Bool:
		y, ok := b.(data.Bool)
		return ok && x == y
	case data.Int:
		y, ok := b.(data.Int)
		return ok && x == y
	case data.String:
		y, ok := b.(data.String)
		return ok && x == y
	case data.List:
		y, ok := b.(data.List)
		if !ok || len(x) != len(y) {
			return false
		}
		for i := range x {
			if !jsonSame(x[i], y[i]) {
				return false
			}
		}
		return true
	case data.Map:
		y, ok := b.(data.Map)
		if !ok || len(x) != len(y) {
			return false
		}
		for k, v := range x {
			w, ok := y[k]
			if !ok || !jsonSame(v, w) {
				return false
			}
		}
		return true
	}
	return false
}

// H_json: {$x|json} parses (by a reference JSON parser) to a value structurally equal to the
// input; shape selects the value: 0 string of n symbolic bytes (valid UTF-8), 1 list
// [string, bool, null, small int], 2 map with a string and a nested list, 3 undefined inside a map.
func H_json(shape, n int) {
	s := verifString(n)
	verifAssume(utf8.ValidString(s))
	var v data.Value
	switch shape {
	case 0:
		v = data.String(s)
	case 1:
		v = data.List{data.String(s), data.Bool(verifBool()), data.Null{}, data.Int(int64(verifChoose(5)) - 2)}
	case 2:
		v = data.Map{"k": data.String(s), "l": data.List{data.String(s), data.List{}}, "e": data.Map{}}
	case 3:
		v = data.Map{"u": data.Undefined{}, "s": data.String(s)}
	}
	out, failed := c16Apply("json", v)
	verifObserve("s", s)
	verifObserve("out", out)
	verifAssert(!failed, "json directive panicked")
	back, rest, ok := jsonParse(out)
	verifAssert(ok && rest == "", "json output is not well-formed JSON")
	verifAssert(jsonSame(v, back), "json output does not parse to a value structurally equal to the input")
}

var c16PrintDirs = []struct {
	text string
	name string
	args []data.Value
}{
	{"|json", "json", nil},
	{"|truncate:5", "truncate", []data.Value{data.Int(5)}},
	{"|escapeUri", "escapeUri", nil},
	{"|escapeJsString", "escapeJsString", nil},
	{"|changeNewlineToBr", "changeNewlineToBr", nil},
	{"|insertWordBreaks:2", "insertWordBreaks", []data.Value{data.Int(2)}},
	{"|escapeHtml", "escapeHtml", nil},
}

// H_printPath: the print command applies a directive to the value whatever the value is: for a
// string of n symbolic bytes (n = 0: the empty string) {$x|d} and {$x|d|noAutoescape} render
// exactly what the directive function returns for it, also as the value of a quoted attribute.
func H_printPath(d, n int) {
	x := verifString(n)
	verifAssume(utf8.ValidString(x))
	pd := c16PrintDirs[d]
	tofu := verifMustCompile("{namespace n}\n/** @param x */\n{template .t autoescape=\"false\"}\n{$x" + pd.text + "}|<a b='{$x" + pd.text + "|noAutoescape}'>\n{/template}\n")
	out, err := verifRender(tofu, "n.t", data.Map{"x": data.String(x)})
	verifObserve("x", x)
	verifObserve("out", out)
	verifAssert(err == nil, "print with a directive failed")
	want, failed := c16Apply(pd.name, data.String(x), pd.args...)
	verifAssert(!failed, "directive panicked")
	verifAssert(out == want+"|<a b='"+want+"'>", "a print command does not write what its directive returns for the value")
}

// H_printPathMsg: encoding directives with different arguments on one value inside a message,
// rendered from the source and through an identity catalogue: every print writes what its own
// directive call returns.
func H_printPathMsg(tr bool) {
	x := verifString(4)
	for i := 0; i < len(x); i++ {
		verifAssume(x[i] >= 0x20 && x[i] < 0x7f)
	}
	tofu := verifMustCompile("{namespace n}\n/** @param x */\n{template .t autoescape=\"false\"}\n{msg desc=\"d\"}{$x|truncate:1,false}/{$x|truncate:3,false}/{$x|insertWordBreaks:1}/{$x|insertWordBreaks:3}/{$x|truncate:1,false}{/msg}\n{/template}\n")
	r := tofu.NewRenderer("n.t")
	if tr {
		r = r.WithMessages(c03Identity(tofu))
	}
	var out []byte
	err := r.Execute(&sliceWriter{&out}, data.Map{"x": data.String(x)})
	verifObserve("x", x)
	verifObserve("out", string(out))
	verifAssert(err == nil, "message with directive prints failed")
	a := func(name string, args ...data.Value) string {
		s, _ := c16Apply(name, data.String(x), args...)
		return s
	}
	want := a("truncate", data.Int(1), data.Bool(false)) + "/" + a("truncate", data.Int(3), data.Bool(false)) + "/" + a("insertWordBreaks", data.Int(1)) + "/" + a("insertWordBreaks", data.Int(3)) + "/" + a("truncate", data.Int(1), data.Bool(false))
	verifAssert(string(out) == want, "a print inside a message does not write what its own directive returns")
}
