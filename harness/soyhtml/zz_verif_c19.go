package soyhtml

import (
	"strconv"

	"github.com/robfig/soy/data"
	"github.com/robfig/soy/errortypes"
	"github.com/robfig/soy/soymsg"
)

func has19(s, sub string) bool {
	for i := 0; i+len(sub) <= len(s); i++ {
		if s[i:i+len(sub)] == sub {
			return true
		}
	}
	return false
}

// H_rendererr: entry template a.t (file f0.soy, L body lines) whose k-th body line (chosen
// symbolically) holds the failing command: at depth 0 an undefined print, at depth 1/2 a call into
// f1.soy whose (transitively) called template fails.
func H_rendererr(depth, L int, sameNS bool) {
	ns := "b"
	if sameNS {
		ns = "a"
	}
	k := verifChoose(L)
	src := "{namespace a}\n/** @param? x \u3053\u3093\u306b\u3061\u306f\u3001\u4e16\u754c\u3002\u3088\u3046\u3053\u305d \U0001F600\U0001F600\U0001F600\U0001F600 */\n{template .t}\n"
	failLine := 0
	for i := 0; i < L; i++ {
		if i == k {
			failLine = 4 + i
			switch depth {
			case 0:
				src += "  t{$x.nope.deeper}\n"
			default:
				if k%2 == 1 {
					// the call tag spans several lines: the command is where it begins
					src += "  t{call " + ns + ".d" + strconv.Itoa(depth) + "\n      data=\"all\"\n  }{param zz}\n  x\n  {/param}\n  {/call}\n"
				} else {
					src += "  t{call " + ns + ".d" + strconv.Itoa(depth) + " /}\n"
				}
			}
		} else {
			// (non-ASCII text before the failing command: positions are byte offsets)
			src += []string{"  ok{$x}\n", "  \u00e9\u20ac\u3053\u3093\u306b\u3061\u306f\u3001\u4e16\u754c\u3002\u3088\u3046\u3053\u305d{$x}\u00e9\n", "  \U0001F600\U0001F600\U0001F600\U0001F600\U0001F600\U0001F600\U0001F600\U0001F600{$x}\n"}[i%3]
		}
	}
	src += "{/template}\n"
	other := "{namespace " + ns + "}\n\n\n\n\n\n\n\n\n\n\n\n/** */\n{template .d1}\n{$nope.x}\n{/template}\n/** */\n{template .d2}\n\n{call .d1 /}\n{/template}\n"
	tofu, cerr := verifCompileNoCheck(src, other)
	verifAssert(cerr == nil, "harness: bundle does not compile")
	_, err := verifRender(tofu, "a.t", data.Map{"x": data.Null{}})
	verifAssert(err != nil, "harness: render did not fail")
	fp := errortypes.ToErrFilePos(err)
	verifAssert(fp != nil, "C19: render error carries no file position")
	verifObserveInt("line", fp.Line())
	verifAssert(fp.File() == "f0.soy", "C19: render error does not name the file of the entry template")
	verifAssert(fp.Line() == failLine, "C19: render error does not point at the line of the outermost failing command")
	verifObserve("msg-has-line", strconv.FormatBool(has19(err.Error(), ":"+strconv.Itoa(fp.Line()))))
}

// H_writeerrpos: a render that fails because the writer fails: the body is L pairs of lines
// "{$x} // c" / "b{$x}" (three single-byte writes per pair; the text starts on the second line); the write that fails is chosen
// symbolically; the error names the entry file and the line of the command whose write failed.
func H_writeerrpos(L int) {
	src := "{namespace a}\n/** @param x */\n{template .t autoescape=\"false\"}\n"
	for i := 0; i < L; i++ {
		// (after a line comment the text token starts on its own line)
		src += "{$x} // c\nb{$x}\n"
	}
	src += "{/template}\n"
	tofu := verifMustCompile(src)
	w := &faultWriter{}
	err := tofu.NewRenderer("a.t").Execute(w, data.Map{"x": data.String("v")})
	if !w.failed {
		verifAssert(err == nil, "harness: render failed without a write failure")
		return
	}
	verifAssert(err != nil, "C12: a failed write did not surface as a render error")
	fp := errortypes.ToErrFilePos(err)
	verifAssert(fp != nil, "C19: render error carries no file position")
	verifObserveInt("line", fp.Line())
	verifAssert(fp.File() == "f0.soy", "C19: render error does not name the file of the entry template")
	want := 4 + 2*(w.atFailure/3)
	if w.atFailure%3 != 0 {
		want++
	}
	verifAssert(fp.Line() == want, "C19: render error (failed write) does not point at the line of the command being executed")
}

// c19Catalogue translates the message "Hello {NAME}" (whatever its id is in this build).
type c19Catalogue struct{ id uint64 }

func (b c19Catalogue) Locale() string { return "xx" }
func (b c19Catalogue) Message(id uint64) *soymsg.Message {
	if id != b.id {
		return nil
	}
	return &soymsg.Message{ID: id, Parts: []soymsg.Part{soymsg.RawTextPart{Text: "Salut "}, soymsg.PlaceholderPart{Name: "NAME"}}}
}
func (b c19Catalogue) PluralCase(n int) int { return 0 }

// H_rendererrMsg: the failing command is a print inside a {msg} that is rendered through a
// translating catalogue (tr) or from the source; the same message occurs, and renders fine, in a
// called template on every other line (before and after). The error names the entry file and the
// line of the failing {msg}.
func H_rendererrMsg(L int, tr bool) {
	k := verifChoose(L)
	src := "{namespace a}\n/** @param? name */\n{template .t}\n"
	for i := 0; i < L; i++ {
		if i == k {
			src += "  {msg desc=\"d\"}Hello {$name}{/msg}\n"
		} else {
			src += "  {call b.ok}{param name: 'v' /}{/call}\n"
		}
	}
	src += "{/template}\n"
	other := "{namespace b}\n\n\n\n\n\n\n\n\n\n\n\n\n\n\n\n\n/** @param name */\n{template .ok}\n{msg desc=\"d\"}Hello {$name}{/msg}\n{/template}\n"
	tofu, cerr := verifCompileNoCheck(src, other)
	verifAssert(cerr == nil, "harness: bundle does not compile")
	r := tofu.NewRenderer("a.t")
	if tr {
		id, _ := c12MsgID(tofu)
		r = r.WithMessages(c19Catalogue{id})
	}
	var out []byte
	err := r.Execute(&sliceWriter{&out}, data.Map{})
	verifObserve("out", string(out))
	verifAssert(err != nil, "harness: render did not fail")
	fp := errortypes.ToErrFilePos(err)
	verifAssert(fp != nil, "C19: render error carries no file position")
	verifObserveInt("line", fp.Line())
	verifAssert(fp.File() == "f0.soy", "C19: render error does not name the file of the entry template")
	verifAssert(fp.Line() == 4+k, "C19: render error does not point at the line of the outermost failing command")
}

func c19Boom(args []data.Value) data.Value { panic(errVerifWrite) }

var c19FailBodies = []string{
	"{$nope.x}",           // undefined data
	"{$one|truncate:'a'}", // directive with an argument of the wrong type
	"{length($one)}",      // function with an argument of the wrong type
	"{verifBoom()}",       // user function panicking with an error value
	"{$one % 0}",          // division by zero
	"{$one|json|noSuchDirective}",
	"{if $nope.x}a{/if}",              // failing condition
	"{foreach $i in $one}a{/foreach}", // not a list
}

// H_rendererrKinds: the failing command sits at call depth d in another file and fails in one of
// several ways (undefined value, directive / function given a wrong argument, a user function
// panicking with an error value, arithmetic error, ...): the error names the entry file and the
// line of the outermost {call}.
func H_rendererrKinds(depth, kind int) {
	Funcs["verifBoom"] = Func{c19Boom, []int{0}}
	k := verifChoose(3)
	src := "{namespace a}\n/** @param? x */\n{template .t}\n"
	for i := 0; i < 3; i++ {
		if i == k {
			src += "  t{call b.d" + strconv.Itoa(depth) + " /}\n"
		} else {
			src += "  ok{$x}\n"
		}
	}
	src += "{/template}\n"
	other := "{namespace b}\n\n\n\n\n\n\n\n\n\n\n\n/** */\n{template .d1}\n{let $one: 1 /}\n" + c19FailBodies[kind] + "\n{/template}\n/** */\n{template .d2}\n\n{call .d1 /}\n{/template}\n"
	tofu, cerr := verifCompileNoCheck(src, other)
	verifAssert(cerr == nil, "harness: bundle does not compile")
	_, err := verifRender(tofu, "a.t", data.Map{"x": data.Null{}})
	verifAssert(err != nil, "harness: render did not fail")
	fp := errortypes.ToErrFilePos(err)
	verifAssert(fp != nil, "C19: render error carries no file position")
	verifObserveInt("line", fp.Line())
	verifAssert(fp.File() == "f0.soy", "C19: render error does not name the file of the entry template")
	verifAssert(fp.Line() == 4+k, "C19: render error does not point at the line of the outermost failing command")
}

// c19AttrBodies: commands whose failing expression stands inside a quoted attribute (parsed by a
// nested parser) or in the expression of a {css} command, beside the plain spellings.
var c19AttrBodies = []string{
	"{call b.ok data=\"$nope.x\" /}",
	"{call b.ok data=\"$nope.x\"}{param q: 1 /}{/call}",
	"{call b.ok}{param key=\"p\" value=\"$nope.x\" /}{/call}",
	"{call b.ok}{param p: $nope.x /}{/call}",
	"{call b.ok}{param q: 1 /}{param key=\"p\" value=\"$one % 0\" /}{/call}",
	"{css $nope.x, c}",
	"{call name=\"b.ok\" data=\"$nope.x\" /}",
}

// H_rendererrAttr: the failing expression stands in an attribute of the command on the k-th body
// line (chosen symbolically) of the entry template itself: the error names the entry file and that line.
func H_rendererrAttr(kind int) {
	k := verifChoose(3)
	src := "{namespace a}\n/** @param? x */\n{template .t}\n{let $one: 1 /}\n"
	for i := 0; i < 3; i++ {
		if i == k {
			src += "  t" + c19AttrBodies[kind] + "\n"
		} else {
			src += "  ok{$x}{call b.ok data=\"['p': 1]\" /}\n"
		}
	}
	src += "{/template}\n"
	other := "{namespace b}\n/** @param? p @param? q */\n{template .ok}\n{$p ?: ''}{$q ?: ''}\n{/template}\n"
	tofu, cerr := verifCompileNoCheck(src, other)
	verifAssert(cerr == nil, "harness: bundle does not compile")
	_, err := verifRender(tofu, "a.t", data.Map{"x": data.Null{}})
	verifAssert(err != nil, "harness: render did not fail")
	fp := errortypes.ToErrFilePos(err)
	verifAssert(fp != nil, "C19: render error carries no file position")
	verifObserveInt("line", fp.Line())
	verifAssert(fp.File() == "f0.soy", "C19: render error does not name the file of the entry template")
	verifAssert(fp.Line() == 5+k, "C19: render error does not point at the line of the failing command")
}
