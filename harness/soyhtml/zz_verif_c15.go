package soyhtml

import (
	"github.com/robfig/soy/data"
	"github.com/robfig/soy/parse"
	"github.com/robfig/soy/parsepasses"
	"github.com/robfig/soy/template"
)

var c15Alphabet = []byte("a< \n/*:>\r")

func c15WS(c byte) bool { return c == ' ' || c == '\t' || c == '\r' || c == '\n' }

// c15Strip removes comments from a text run the way the language defines them: "/*" opens a block
// comment closed by the next "*/" after it; "//" opens a line comment, up to and including the end of
// the line, only when the character before it is whitespace (prev is the character before the
// run, 0 at the start of the input). Comment boundaries are marked with 0x01. ok=false: unclosed
// block comment.
func c15Strip(s string, prev byte) (string, bool) {
	r, ok, _ := c15Strip3(s, prev)
	return r, ok
}

// c15Strip3 also reports whether a line comment is still open at the end of the run (it then
// extends over whatever follows on that line, including a tag).
func c15Strip3(s string, prev byte) (string, bool, bool) {
	openLine := false
	var out []byte
	for i := 0; i < len(s); {
		p := prev
		if i > 0 {
			p = s[i-1]
		}
		if s[i] == '/' && i+1 < len(s) && s[i+1] == '*' {
			j := i + 2
			for ; j+1 < len(s); j++ {
				if s[j] == '*' && s[j+1] == '/' {
					break
				}
			}
			if j+1 >= len(s) {
				return "", false, false
			}
			out = append(out, 1)
			i = j + 2
			continue
		}
		if s[i] == '/' && i+1 < len(s) && s[i+1] == '/' && (c15WS(p) || p == 0) {
			j := i + 2
			for j < len(s) && s[j] != '\n' && s[j] != '\r' {
				j++
			}
			if j < len(s) {
				j++
			} else {
				openLine = true
			}
			out = append(out, 1)
			i = j
			continue
		}
		out = append(out, s[i])
		i++
	}
	return string(out), true, openLine
}

func c15NonWS(s string) string {
	var out []byte
	for i := 0; i < len(s); i++ {
		if !c15WS(s[i]) && s[i] != 1 {
			out = append(out, s[i])
		}
	}
	return string(out)
}

// c15Ref is the line-joining rule over maximal whitespace runs (see the parse harness).
func c15Ref(s string, trimBefore, trimAfter bool) string {
	var out []byte
	n := len(s)
	tj := func(c byte) bool { return c == '<' || c == '>' }
	for i := 0; i < n; {
		if !c15WS(s[i]) {
			out = append(out, s[i])
			i++
			continue
		}
		j, nl := i, false
		for j < n && c15WS(s[j]) {
			if s[j] == '\n' || s[j] == '\r' {
				nl = true
			}
			j++
		}
		atStart, atEnd := i == 0, j == n
		switch {
		case atStart && atEnd:
			if !nl && !trimBefore && !trimAfter {
				out = append(out, s[i:j]...)
			}
		case atStart:
			if !nl && !trimBefore {
				out = append(out, s[i:j]...)
			}
		case atEnd:
			if !nl && !trimAfter {
				out = append(out, s[i:j]...)
			}
		default:
			if !nl {
				out = append(out, s[i:j]...)
			} else if !tj(s[i-1]) && !tj(s[j]) {
				out = append(out, ' ')
			}
		}
		i = j
	}
	return string(out)
}

const c15Callee = "/** @param? a */\n{template .u autoescape=\"false\"}\nu{$a ?: ''}\n{/template}\n"

var c15Pre = []struct{ src, out string }{
	{"{call .u}{param a: 1 /} // c\n{/call}", "u1"},
	{"{call .u} /* c */ {param a}p{/param} // d\n{/call}", "up"},
	{"{switch $x} /* c */ {case '|'}s{/switch}", "s"},
	{"{if $x}i // c\n{/if}", "i"},
	{"{foreach $i in [1]} /* c */{$i}{/foreach}", "1"},
	{"{let $y} /*c*/ l{/let}{$y}", "l"},
	{"{call .u /}", "u"},
	{"{msg desc=\"d\"}", "{/msg}"}, // (index 7: the run is the text of a message; src closes it)
	{"", ""},                       // (index 8: the run follows a header param declaration)
	{"{msg desc=\"d\"}", "{/msg}"}, // (index 9: message text with capital letters)
	{"", ""},                       // (index 10: the run starts with text and a closed block comment)
}

// H_textlex: a template body of n characters over {a < > space LF CR / * :} (concrete per path)
// between neighbours chosen by ctx: 0 between two prints, 1 at the start of the template, 2 at
// its end. Comment-free text must come out exactly as the line-joining rule says; with comments,
// exactly the non-whitespace characters outside comments must come out, in order; an unclosed
// block comment is an error.
func H_textlex(n, ctx int) {
	b := make([]byte, n)
	for i := range b {
		b[i] = c15Alphabet[verifChoose(len(c15Alphabet))]
	}
	body := string(b)
	for i := 0; i+2 < len(body); i++ {
		if body[i] == '/' && body[i+1] == '*' && body[i+2] == '*' {
			return // "/**" opens a doc comment: not template text
		}
	}
	var src, run, preOut string
	var prev byte
	switch ctx {
	case 0:
		src, run, prev = "{namespace n}\n/** @param x */\n{template .t autoescape=\"false\"}\n{$x}"+body+"{$x}\n{/template}\n", body, '}'
	case 1:
		src, run, prev = "{namespace n}\n/** @param x */\n{template .t autoescape=\"false\"}\n"+body+"{$x}\n{/template}\n", "\n"+body, '}'
	case 2:
		src, run, prev = "{namespace n}\n/** @param x */\n{template .t autoescape=\"false\"}\n{$x}"+body+"\n{/template}\n", body+"\n", '}'
	default:
		// after a command that holds comments of its own (between call params, before a case,
		// inside a block): they must not influence the text that follows the command
		src, run, prev = "{namespace n}\n/** @param x */\n{template .t autoescape=\"false\"}\n"+c15Pre[ctx-3].src+body+"{$x}\n{/template}\n"+c15Callee, body, '}'
		preOut = c15Pre[ctx-3].out
		if ctx == 11 {
			// the run directly after a header param declaration (no soydoc)
			src = "{namespace n}\n{template .t autoescape=\"false\"}\n{@param x: ?}" + body + "{$x}\n{/template}\n"
			preOut = ""
		}
		if ctx == 13 {
			// the symbolic characters directly follow a closed block comment ("*/" is not white
			// space: a "//" behind it is text)
			run = "a/* c */" + body
			src = "{namespace n}\n/** @param x */\n{template .t autoescape=\"false\"}\n{$x}" + run + "{$x}\n{/template}\n"
			preOut = "|"
		}
		if ctx == 12 {
			// message text with capital letters (tag names in any case are written back as they are)
			for i := range b {
				if b[i] == 'a' {
					b[i] = 'A'
				}
			}
			body, run = string(b), string(b)
		}
		if ctx == 10 || ctx == 12 {
			// the text of a message (tags in it become placeholders and are written back as they are)
			src = "{namespace n}\n/** @param x */\n{template .t autoescape=\"false\"}\n{msg desc=\"d\"}" + body + "{/msg}{$x}\n{/template}\n"
			preOut = ""
		}
	}
	verifObserve("body", body)
	stripped, closed, openLine := c15Strip3(run, prev)
	reg := template.Registry{}
	f, err := parse.SoyFile("t.soy", src)
	if !closed {
		verifAssert(err != nil, "an unclosed block comment was accepted")
		return
	}
	if (ctx == 10 || ctx == 12) && openLine {
		// a line comment left open by the run extends over the {/msg} on the same line
		verifAssert(err != nil, "a message whose closing tag lies inside a line comment was accepted")
		return
	}
	verifAssert(err == nil, "template text rejected by the parser")
	verifAssert(reg.Add(f) == nil, "harness: registry")
	if ctx == 10 || ctx == 12 {
		parsepasses.ProcessMessages(reg) // as compiling a bundle does: placeholder names and ids
	}
	out, rerr := verifRender(NewTofu(&reg), "n.t", data.Map{"x": data.String("|")})
	verifObserve("out", out)
	verifAssert(rerr == nil, "render failed")
	hasComment := false
	for i := 0; i < len(stripped); i++ {
		if stripped[i] == 1 {
			hasComment = true
		}
	}
	if hasComment {
		want := c15NonWS(stripped)
		after := "|"
		if openLine {
			after = "" // the line comment extends over the print that follows on the same line
		}
		switch ctx {
		case 0:
			want = "|" + want + after
		case 1:
			want = want + after
		case 2:
			want = "|" + want
		default:
			want = preOut + want + after
		}
		verifAssert(c15NonWS(out) == want, "the non-whitespace characters outside comments are not exactly what is written")
		return
	}
	var want string
	switch ctx {
	case 0:
		want = "|" + c15Ref(run, false, false) + "|"
	case 1:
		want = c15Ref(run, false, false) + "|"
	case 2:
		want = "|" + c15Ref(run, false, false)
	default:
		want = preOut + c15Ref(run, false, false) + "|"
	}
	verifAssert(out == want, "comment-free template text is not normalised by the line-joining rule")
}

// H_literal: {literal}s{/literal} and the special-character commands emit exactly their characters.
func H_literal(n int) {
	b := make([]byte, n)
	for i := range b {
		b[i] = []byte("a {}\n/<*\r\t")[verifChoose(10)]
	}
	s := string(b)
	for i := 0; i+1 < len(s); i++ {
		if s[i] == '{' && s[i+1] == '/' {
			return // could close the literal block
		}
	}
	src := "{namespace n}\n/** */\n{template .t autoescape=\"false\"}\n[{literal}" + s + "{/literal}]{sp}{nil}{\\n}{\\r}{\\t}{lb}{rb}\n{/template}\n"
	reg := template.Registry{}
	f, err := parse.SoyFile("t.soy", src)
	verifObserve("s", s)
	verifAssert(err == nil, "literal block rejected")
	verifAssert(reg.Add(f) == nil, "harness: registry")
	out, rerr := verifRender(NewTofu(&reg), "n.t", nil)
	verifAssert(rerr == nil, "render failed")
	verifAssert(out == "["+s+"] \n\r\t{}", "literal block or special-character commands do not emit exactly their characters")
}
