package soyhtml

import (
	"github.com/robfig/soy/data"
)

// ---- bundle generator centred on binding structure ----

type qNode struct {
	kind   int // 0 print 1 let value 2 let content 3 if 4 foreach 5 call
	name   string
	body   []*qNode
	alt    []*qNode // foreach: the {ifempty} block (nil: none)
	hasAlt bool
	callee int // 0 .u (optional a, b, k)  1 .r (required q, optional a)  2 .nope (does not exist)
	data   int // 0 none 1 all 2 $m
	param  int // 0 none 1 k 2 zz (undeclared) 3 q ; value or content by pcont
	pcont  bool
	pval   string
}

var c07Vars = []string{"a", "b", "c", "i"}
var c07LetNames = []string{"a", "c", "ij"}
var c07BindLetNames = []string{"a", "c", "ij", "i"}
var c07CallLetNames = []string{"q", "a", "k"}
var c07Callees = []string{".u", ".r", ".nope"}
var c07ParamNames = []string{"", "k", "zz", "q"}

type c07Gen struct {
	profile int // 0: all node kinds; 1: binding structure only (print, let value, let content, if, foreach)
	budget  int
	rOrder  int // order of the soydoc lines of callee .r: -1 not yet chosen, 0 required first, 1 optional first
}

func (g *c07Gen) v() string { return c07Vars[verifChoose(len(c07Vars))] }

func (g *c07Gen) list(depth, max int) []*qNode {
	var out []*qNode
	for len(out) < max && g.budget > 0 && verifChoose(2) == 1 {
		out = append(out, g.node(depth))
	}
	return out
}

func (g *c07Gen) node(depth int) *qNode {
	g.budget--
	kinds := 6
	if depth == 0 {
		kinds = 2
	}
	k := 0
	if g.profile == 2 {
		// calls profile: a let or loop variable named like a param of the callee, around calls
		// that forward data="all" or nothing
		switch verifChoose(4) {
		case 0:
			return &qNode{kind: 0, name: c07CallLetNames[verifChoose(len(c07CallLetNames))]}
		case 1:
			return &qNode{kind: 1, name: c07CallLetNames[verifChoose(len(c07CallLetNames))]}
		case 2:
			if depth > 0 {
				n := &qNode{kind: 4, body: g.list(depth-1, 2)}
				if verifChoose(2) == 1 {
					// (the loop variable is not in scope in the {ifempty} block)
					n.hasAlt, n.alt = true, g.list(depth-1, 1)
				}
				return n
			}
		}
		n := &qNode{kind: 5, callee: verifChoose(2), data: verifChoose(2)}
		if n.callee == 1 && g.rOrder < 0 {
			g.rOrder = 0
		}
		return n
	}
	if g.profile == 1 && depth > 0 {
		k = verifChoose(5) // print, let value, let content, if, foreach
	} else {
		k = verifChoose(kinds)
	}
	switch k {
	case 0:
		n := &qNode{kind: 0, name: g.v()}
		if n.name == "i" && verifChoose(2) == 1 {
			n.name = "ij"
		}
		return n
	case 1:
		if g.profile == 1 {
			// (also a let named like the loop variable)
			return &qNode{kind: 1, name: c07BindLetNames[verifChoose(len(c07BindLetNames))]}
		}
		return &qNode{kind: 1, name: c07LetNames[verifChoose(len(c07LetNames))]}
	case 2:
		return &qNode{kind: 2, name: c07LetNames[verifChoose(2)], body: g.list(depth-1, 2)}
	case 3:
		return &qNode{kind: 3, name: g.v(), body: g.list(depth-1, 2)}
	case 4:
		return &qNode{kind: 4, body: g.list(depth-1, 2)}
	}
	n := &qNode{kind: 5, callee: verifChoose(3), data: verifChoose(3), param: verifChoose(4)}
	if n.callee == 1 && g.rOrder < 0 {
		g.rOrder = verifChoose(2)
	}
	if n.param != 0 {
		n.pcont = verifChoose(2) == 1
		n.pval = g.v()
	}
	return n
}

func c07Src(ns []*qNode) string {
	s := ""
	for _, n := range ns {
		switch n.kind {
		case 0:
			if n.name == "ij" {
				s += "{$ij.x}"
			} else {
				s += "{$" + n.name + "}"
			}
		case 1:
			s += "{let $" + n.name + ": 'v' /}"
		case 2:
			s += "{let $" + n.name + "}" + c07Src(n.body) + "{/let}"
		case 3:
			s += "{if $" + n.name + "}" + c07Src(n.body) + "{/if}"
		case 4:
			s += "{foreach $i in $l}" + c07Src(n.body)
			if n.hasAlt {
				s += "{ifempty}" + c07Src(n.alt)
			}
			s += "{/foreach}"
		case 5:
			s += "{call " + c07Callees[n.callee]
			switch n.data {
			case 1:
				s += " data=\"all\""
			case 2:
				s += " data=\"$m\""
			}
			switch {
			case n.param == 0:
				s += " /}"
			case n.pcont:
				s += "}{param " + c07ParamNames[n.param] + "}{$" + n.pval + "}{/param}{/call}"
			default:
				s += "}{param " + c07ParamNames[n.param] + ": $" + n.pval + " /}{/call}"
			}
		}
	}
	return s
}

// ---- declarative reference of the data-reference rules ----

type c07Let struct {
	name string
	used bool
}

type c07Check struct {
	params   map[string]bool // declared params of the template
	direct   map[string]bool // params referenced directly (not only forwarded by data="all")
	letNames map[string]bool // every let name of the program
	used     map[string]bool
	blocks   [][]*c07Let
	loops    int
	rejected bool
}

func (c *c07Check) push() { c.blocks = append(c.blocks, nil) }
func (c *c07Check) pop() {
	for _, l := range c.blocks[len(c.blocks)-1] {
		if !l.used {
			c.rejected = true // rule: every let is used
		}
	}
	c.blocks = c.blocks[:len(c.blocks)-1]
}

func (c *c07Check) ref(name string) {
	if name == "ij" {
		return
	}
	for b := len(c.blocks) - 1; b >= 0; b-- {
		for j := len(c.blocks[b]) - 1; j >= 0; j-- {
			if c.blocks[b][j].name == name {
				c.blocks[b][j].used = true
				return
			}
		}
	}
	if name == "i" && c.loops > 0 {
		return
	}
	if c.params[name] {
		c.used[name] = true
		c.direct[name] = true
		return
	}
	c.rejected = true // rule: every reference is bound
}

func (c *c07Check) define(name string) {
	if name == "ij" {
		c.rejected = true // rule: a let may not be named ij
		return
	}
	top := len(c.blocks) - 1
	c.letNames[name] = true
	c.blocks[top] = append(c.blocks[top], &c07Let{name: name})
}

var c07CalleeParams = [][]string{{"a", "b", "k"}, {"q", "a"}}
var c07CalleeRequired = [][]string{{}, {"q"}}

func in07(xs []string, x string) bool {
	for _, y := range xs {
		if x == y {
			return true
		}
	}
	return false
}

func (c *c07Check) walk(ns []*qNode) {
	for _, n := range ns {
		switch n.kind {
		case 0:
			c.ref(n.name)
		case 1:
			c.define(n.name)
		case 2:
			c.push()
			c.walk(n.body)
			c.pop()
			c.define(n.name)
		case 3:
			c.ref(n.name)
			c.push()
			c.walk(n.body)
			c.pop()
		case 4:
			c.ref("l")
			c.loops++
			c.push()
			c.walk(n.body)
			c.pop()
			c.loops--
			if n.hasAlt {
				c.push()
				c.walk(n.alt)
				c.pop()
			}
		case 5:
			if n.callee == 2 {
				c.rejected = true // rule: the callee exists
				// (the remaining rules cannot be evaluated without a callee)
				if n.data == 2 {
					c.ref("m")
				}
				if n.param != 0 {
					c.ref(n.pval)
				}
				continue
			}
			declared, required := c07CalleeParams[n.callee], c07CalleeRequired[n.callee]
			var passed []string
			if n.data == 1 {
				for p := range c.params {
					if in07(declared, p) {
						c.used[p] = true // forwarding counts as use
						passed = append(passed, p)
					}
				}
			}
			if n.data == 2 {
				c.ref("m")
			}
			if n.param != 0 {
				pn := c07ParamNames[n.param]
				if !in07(declared, pn) {
					c.rejected = true // rule: only declared params are passed
				}
				passed = append(passed, pn)
				c.ref(n.pval)
			}
			if n.data != 2 {
				for _, r := range required {
					if !in07(passed, r) {
						c.rejected = true // rule: required params are passed unless data= is given
					}
				}
			}
		}
	}
}

// c07Lib: the callees; the soydoc of .r lists its required param before (rOrder<=0) or after the
// optional one.
func c07Lib(rOrder int) string {
	rdoc := "/** @param q\n @param? a */\n"
	if rOrder == 1 {
		rdoc = "/**\n * @param? a An optional one.\n * @param q The required one.\n */\n"
	}
	return "/** @param? a\n @param? b\n @param? k */\n{template .u}\n[{$a ?: 'n'}{$b ?: 'n'}{$k ?: 'n'}]\n{/template}\n" +
		rdoc + "{template .r}\n({$q}{$a ?: 'n'})\n{/template}\n"
}

// H_datarefs: CheckDataRefs accepts exactly the generated bundles that satisfy the rules; for an
// accepted bundle, rendering with every declared param supplied looks up no unbound name.
func H_datarefs(depth, budget int, declA, declB bool) { c07Run(depth, budget, declA, declB, 0) }

// H_datarefsLate: the same bundle plus a further template that declares the param a without using
// it, placed after (late=1) or before (late=2) the generated one: always invalid, whatever the
// other templates do.
func H_datarefsLate(depth, budget, late int) { c07Run(depth, budget, true, true, late) }

// H_datarefsBind: the generator restricted to binding structure (print, let value, let content,
// if, foreach; lets may be named like the loop variable; no calls), which affords one more node: sequences such as reference / shadowing
// let / reference.
func H_datarefsBind(depth, budget int, declA, declB bool) { c07Run(depth, budget, declA, declB, -1) }

// H_datarefsCalls: the generator restricted to prints, lets named like params of the callees
// (q, a, k), loops and calls with data="all" or without data: what data="all" forwards is the
// caller's params, never its local variables.
func H_datarefsCalls(depth, budget int, declA, declB bool) { c07Run(depth, budget, declA, declB, -2) }

func c07Run(depth, budget int, declA, declB bool, late int) {
	g := &c07Gen{budget: budget, rOrder: -1}
	if late == -2 {
		g.profile, late = 2, 0
	}
	if late < 0 {
		g.profile, late = 1, 0
	}
	if late != 0 {
		g.rOrder = 0 // (the order of the callee's soydoc lines is varied by H_datarefs)
	}
	prog := g.list(depth, 3)
	doc := "/**"
	params := map[string]bool{"l": true, "m": true}
	if declA {
		doc += " @param a\n"
		params["a"] = true
	}
	if declB {
		doc += " @param? b\n"
		params["b"] = true
	}
	doc += " @param l\n @param m */\n"
	body := c07Src(prog)
	main := doc + "{template .t}\n" + body + "{if $l}{$m.a}{/if}\n{/template}\n"
	const lateTpl = "/** @param a\n @param? b */\n{template .late}\nlate\n{/template}\n"
	lib := c07Lib(g.rOrder)
	src := "{namespace n}\n" + main + lib
	switch late {
	case 1:
		src = "{namespace n}\n" + main + lib + lateTpl
	case 2:
		src = "{namespace n}\n" + lateTpl + main + lib
	}
	verifObserve("body", body)
	chk := &c07Check{params: params, used: map[string]bool{"l": true, "m": true}, direct: map[string]bool{}, letNames: map[string]bool{}}
	chk.push()
	chk.walk(prog)
	chk.pop()
	for p := range params {
		if !chk.used[p] {
			chk.rejected = true // rule: every declared param is used
		}
	}
	if late != 0 {
		chk.rejected = true // .late declares params it never uses
	}
	tofu, err := verifCompile(src)
	if err != nil {
		verifObserve("compile", "rejected")
	} else {
		verifObserve("compile", "accepted")
	}
	if chk.rejected {
		verifAssert(err != nil, "C07: a bundle violating the data-reference rules was accepted")
		return
	}
	class := ""
	for p := range params {
		if chk.used[p] && !chk.direct[p] && chk.letNames[p] {
			class = " [a param that is only forwarded by data=\"all\" while a let of the same name exists]"
		}
	}
	verifAssert(err == nil, "C07: a bundle satisfying the data-reference rules was rejected"+class)
	verifUnboundLookups, verifUnboundKeys = 0, nil
	dm := data.Map{"a": data.String("A"), "b": data.String("B"), "l": data.List{data.Int(1)}, "m": data.Map{"a": data.String("M"), "q": data.String("Q")}}
	_, rerr := t07Render(tofu, dm)
	_ = rerr
	for _, k := range verifUnboundKeys {
		// optional params of a callee that the call does not pass are legitimately absent
		verifAssert(k == "a" || k == "b" || k == "k", "C07: rendering an accepted bundle looked up the unbound name $"+k)
	}
}

func t07Render(tofu *Tofu, dm data.Map) (string, error) {
	var out []byte
	err := tofu.NewRenderer("n.t").Inject(data.Map{"x": data.String("I")}).Execute(&sliceWriter{&out}, dm)
	return string(out), err
}

// H_bothParamStyles: soydoc and header params on one template are rejected; either alone is accepted.
func H_bothParamStyles(v int) {
	docs := []string{"/** @param a */\n", "/** */\n", "/** @param a */\n"}
	hdr := []string{"", "{@param a: string}\n", "{@param b: string}\n"}
	body := []string{"{$a}", "{$a}", "{$a}{$b}"}
	_, err := verifCompile("{namespace n}\n" + docs[v] + "{template .t}\n" + hdr[v] + body[v] + "\n{/template}\n")
	if v == 2 {
		verifAssert(err != nil, "C07: a template with both soydoc and header params was accepted")
	} else {
		verifAssert(err == nil, "C07: a template with one param style was rejected")
	}
}
