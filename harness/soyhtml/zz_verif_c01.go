package soyhtml

import (
	"bytes"
	"math"

	"github.com/robfig/soy/ast"
	"github.com/robfig/soy/data"
)

// ---- symbolic Soy values ----
//
// kinds: 0 undefined (the variable is absent), 1 null, 2 bool, 3 int (|i| <= 2^31 so that the
// reference arithmetic cannot wrap), 4 float (any bit pattern), 5 string of 1 symbolic byte,
// 6 empty string, 7 list [10, 'x'], 8 map ['k': 1]
const c01Kinds = 9

var (
	c01List = data.List{data.Int(10), data.String("x")}
	c01Map  = data.Map{"k": data.Int(1)}
)

func c01Val(k int) data.Value {
	switch k {
	case 0:
		return data.Undefined{}
	case 1:
		return data.Null{}
	case 2:
		return data.Bool(verifBool())
	case 3:
		i := verifInt64()
		verifAssume(i >= -(1<<31) && i <= 1<<31)
		return data.Int(i)
	case 4:
		return data.Float(verifFloat64())
	case 5:
		return data.String(verifString(1))
	case 6:
		return data.String("")
	case 7:
		return c01List
	case 8:
		return c01Map
	}
	panic("kind")
}

func c01Bind(m data.Map, name string, k int) data.Value {
	v := c01Val(k)
	if k != 0 {
		m[name] = v
	}
	return v
}

// evalWith evaluates an expression node the way a print command does, without printing.
func evalWith(node ast.Node, m data.Map) (val data.Value, err error) {
	var buf bytes.Buffer
	s := &state{wr: &buf, context: newScope(m)}
	s.tmpl.Node = &ast.TemplateNode{Name: "t"}
	defer func() {
		if buf.Len() != 0 {
			verifAssert(false, "evaluating an expression wrote output")
		}
	}()
	defer s.errRecover(&err)
	s.walk(node)
	return s.val, nil
}

func refA() ast.Node { return &ast.DataRefNode{Key: "a"} }
func refB() ast.Node { return &ast.DataRefNode{Key: "b"} }
func refC() ast.Node { return &ast.DataRefNode{Key: "c"} }

var c01BinOps = []string{"+", "-", "*", "/", "%", "<", "<=", ">", ">=", "==", "!=", "and", "or", "?:"}

func c01BinNode(op int, x, y ast.Node) ast.Node {
	b := ast.BinaryOpNode{Name: c01BinOps[op], Arg1: x, Arg2: y}
	switch op {
	case 0:
		return &ast.AddNode{b}
	case 1:
		return &ast.SubNode{b}
	case 2:
		return &ast.MulNode{b}
	case 3:
		return &ast.DivNode{b}
	case 4:
		return &ast.ModNode{b}
	case 5:
		return &ast.LtNode{b}
	case 6:
		return &ast.LteNode{b}
	case 7:
		return &ast.GtNode{b}
	case 8:
		return &ast.GteNode{b}
	case 9:
		return &ast.EqNode{b}
	case 10:
		return &ast.NotEqNode{b}
	case 11:
		return &ast.AndNode{b}
	case 12:
		return &ast.OrNode{b}
	case 13:
		return &ast.ElvisNode{b}
	}
	panic("op")
}

// ---- reference semantics (Soy language definition) ----

func refTruthy(v data.Value) bool {
	switch x := v.(type) {
	case data.Undefined, data.Null:
		return false
	case data.Bool:
		return bool(x)
	case data.Int:
		return x != 0
	case data.Float:
		f := float64(x)
		return !(f == 0 || f != f)
	case data.String:
		return len(x) != 0
	}
	return true // lists and maps
}

func refIsNum(v data.Value) bool {
	switch v.(type) {
	case data.Int, data.Float:
		return true
	}
	return false
}

func refNum(v data.Value) float64 {
	switch x := v.(type) {
	case data.Int:
		return float64(x)
	case data.Float:
		return float64(x)
	}
	panic("not a number")
}

func refEquals(a, b data.Value) bool {
	switch x := a.(type) {
	case data.Undefined:
		_, ok := b.(data.Undefined)
		return ok
	case data.Null:
		_, ok := b.(data.Null)
		return ok
	case data.Bool:
		y, ok := b.(data.Bool)
		return ok && x == y
	case data.String:
		y, ok := b.(data.String)
		return ok && x == y
	case data.Int:
		switch y := b.(type) {
		case data.Int:
			return x == y
		case data.Float:
			return float64(x) == float64(y)
		}
		return false
	case data.Float:
		switch y := b.(type) {
		case data.Int:
			return float64(x) == float64(y)
		case data.Float:
			return x == y
		}
		return false
	}
	// lists/maps: same instance; the harness uses one instance per kind
	_, al := a.(data.List)
	_, bl := b.(data.List)
	_, am := a.(data.Map)
	_, bm := b.(data.Map)
	return (al && bl) || (am && bm)
}

// refBin returns the value the language defines for `a op b`, or ok=false when it has none
// (the render must fail).
func refBin(op int, a, b data.Value) (data.Value, bool) {
	_, aUndef := a.(data.Undefined)
	_, bUndef := b.(data.Undefined)
	ai, aInt := a.(data.Int)
	bi, bInt := b.(data.Int)
	_, aStr := a.(data.String)
	_, bStr := b.(data.String)
	switch op {
	case 0, 1, 2, 3, 4: // arithmetic needs defined operands
		if aUndef || bUndef {
			return nil, false
		}
	}
	switch op {
	case 0:
		switch {
		case aInt && bInt:
			return data.Int(ai + bi), true
		case aStr || bStr:
			return data.String(a.String() + b.String()), true
		case refIsNum(a) && refIsNum(b):
			return data.Float(refNum(a) + refNum(b)), true
		}
		return nil, false
	case 1:
		switch {
		case aInt && bInt:
			return data.Int(ai - bi), true
		case refIsNum(a) && refIsNum(b):
			return data.Float(refNum(a) - refNum(b)), true
		}
		return nil, false
	case 2:
		switch {
		case aInt && bInt:
			return data.Int(ai * bi), true
		case refIsNum(a) && refIsNum(b):
			return data.Float(refNum(a) * refNum(b)), true
		}
		return nil, false
	case 3:
		if refIsNum(a) && refIsNum(b) {
			return data.Float(refNum(a) / refNum(b)), true
		}
		return nil, false
	case 4:
		if aInt && bInt && bi != 0 {
			return data.Int(ai % bi), true
		}
		return nil, false
	case 5, 6, 7, 8:
		if !(refIsNum(a) && refIsNum(b)) {
			return nil, false
		}
		x, y := refNum(a), refNum(b)
		switch op {
		case 5:
			return data.Bool(x < y), true
		case 6:
			return data.Bool(x <= y), true
		case 7:
			return data.Bool(x > y), true
		}
		return data.Bool(x >= y), true
	case 9:
		return data.Bool(refEquals(a, b)), true
	case 10:
		return data.Bool(!refEquals(a, b)), true
	case 11:
		return data.Bool(refTruthy(a) && refTruthy(b)), true
	case 12:
		return data.Bool(refTruthy(a) || refTruthy(b)), true
	case 13:
		_, aNull := a.(data.Null)
		if aNull || aUndef {
			return b, true
		}
		return a, true
	}
	panic("op")
}

// sameValue: same dynamic type and same payload (NaN equals NaN; lists/maps by instance kind).
func sameValue(x, y data.Value) bool {
	switch a := x.(type) {
	case data.Undefined:
		_, ok := y.(data.Undefined)
		return ok
	case data.Null:
		_, ok := y.(data.Null)
		return ok
	case data.Bool:
		b, ok := y.(data.Bool)
		return ok && a == b
	case data.Int:
		b, ok := y.(data.Int)
		return ok && a == b
	case data.Float:
		// bit-for-bit: the same IEEE operation on the same operands yields the same bits, and the
		// solver is spared a floating-point multiplication/division query
		b, ok := y.(data.Float)
		return ok && math.Float64bits(float64(a)) == math.Float64bits(float64(b))
	case data.String:
		b, ok := y.(data.String)
		return ok && a == b
	case data.List:
		_, ok := y.(data.List)
		return ok
	case data.Map:
		_, ok := y.(data.Map)
		return ok
	}
	return false
}

// H_binop: `$a op $b` for every operator and every pair of operand kinds.
func H_binop(op, ka, kb int) {
	m := data.Map{}
	if op == 0 && ((ka == 4 && (kb == 5 || kb == 6)) || (kb == 4 && (ka == 5 || ka == 6))) {
		return // float + string prints the float: strconv.FormatFloat on a symbolic value is outside the claim
	}
	a, b := c01Bind(m, "a", ka), c01Bind(m, "b", kb)
	if op == 0 && (ka == 5 || ka == 6 || kb == 5 || kb == 6) {
		// int + string prints the int: keep printed numbers small (number formatting concretises)
		if i, ok := a.(data.Int); ok {
			verifAssume(i >= -11 && i <= 11)
		}
		if i, ok := b.(data.Int); ok {
			verifAssume(i >= -11 && i <= 11)
		}
	}
	got, err := evalWith(c01BinNode(op, refA(), refB()), m)
	want, ok := refBin(op, a, b)
	if !ok {
		verifAssert(err != nil, "expression without a value evaluated without error: "+c01BinOps[op])
		return
	}
	verifAssert(err == nil, "well-typed expression failed: "+c01BinOps[op])
	verifAssert(sameValue(got, want), "wrong value or type for operator "+c01BinOps[op])
}

// H_shortcircuit: and/or/?:/ternary must not evaluate the operand they skip (the skipped operand
// is an erroring expression).
func H_shortcircuit(form, ka int) {
	m := data.Map{}
	a := c01Bind(m, "a", ka)
	bad := c01BinNode(5, &ast.StringNode{Value: "x"}, &ast.IntNode{Value: 1}) // 'x' < 1 has no value
	var node ast.Node
	var skipped bool
	switch form {
	case 0:
		node, skipped = c01BinNode(11, refA(), bad), !refTruthy(a)
	case 1:
		node, skipped = c01BinNode(12, refA(), bad), refTruthy(a)
	case 2:
		_, isNull := a.(data.Null)
		node, skipped = c01BinNode(13, refA(), bad), !(isNull || ka == 0)
	case 3:
		node, skipped = &ast.TernNode{Arg1: refA(), Arg2: &ast.IntNode{Value: 1}, Arg3: bad}, refTruthy(a)
	case 4:
		node, skipped = &ast.TernNode{Arg1: refA(), Arg2: bad, Arg3: &ast.IntNode{Value: 2}}, !refTruthy(a)
	}
	_, err := evalWith(node, m)
	verifAssert((err == nil) == skipped, "short-circuit evaluation: the skipped operand was evaluated or the needed one was not")
}

// H_unop: -a and not a.
func H_unop(op, ka int) {
	m := data.Map{}
	a := c01Bind(m, "a", ka)
	if op == 0 {
		got, err := evalWith(&ast.NegateNode{Arg: refA()}, m)
		switch x := a.(type) {
		case data.Int:
			verifAssert(err == nil && sameValue(got, data.Int(-x)), "-int")
		case data.Float:
			verifAssert(err == nil && sameValue(got, data.Float(-x)), "-float")
		default:
			verifAssert(err != nil, "negating a non-number must fail")
		}
		return
	}
	got, err := evalWith(&ast.NotNode{Arg: refA()}, m)
	verifAssert(err == nil && sameValue(got, data.Bool(!refTruthy(a))), "not")
}

// H_ternary: a ? b : c picks by truthiness and yields the chosen operand unchanged.
func H_ternary(ka, kb int) {
	m := data.Map{}
	a, b := c01Bind(m, "a", ka), c01Bind(m, "b", kb)
	got, err := evalWith(&ast.TernNode{Arg1: refA(), Arg2: refB(), Arg3: &ast.IntNode{Value: 7}}, m)
	verifAssert(err == nil, "ternary failed")
	if refTruthy(a) {
		verifAssert(sameValue(got, b), "ternary: true branch")
	} else {
		verifAssert(sameValue(got, data.Int(7)), "ternary: false branch")
	}
}

// H_print: the text of {$a}: booleans, null, strings, small ints; printing undefined fails and
// writes nothing.
func H_print(ka int) {
	tofu := verifMustCompile("{namespace n}\n/** @param? a */\n{template .t autoescape=\"false\"}\n[{$a}]\n{/template}\n")
	m := data.Map{}
	var a data.Value
	if ka == 4 {
		return // the text of floats is outside the claim (strconv.FormatFloat)
	}
	if ka == 3 {
		i := verifInt64()
		verifAssume(i >= -11 && i <= 11)
		a = data.Int(i)
		m["a"] = a
	} else {
		a = c01Bind(m, "a", ka)
	}
	out, err := verifRender(tofu, "n.t", m)
	verifObserve("out", out)
	var want string
	switch x := a.(type) {
	case data.Undefined:
		verifAssert(err != nil, "printing undefined must fail")
		verifAssert(out == "[", "a failing print produced text")
		return
	case data.Null:
		want = "null"
	case data.Bool:
		want = "false"
		if x {
			want = "true"
		}
	case data.Int:
		n := int64(x)
		neg := n < 0
		if neg {
			n = -n
		}
		if n >= 10 {
			want = "1" + string(rune('0'+n-10))
		} else {
			want = string(rune('0' + n))
		}
		if neg {
			want = "-" + want
		}
	case data.String:
		want = string(x)
	case data.List:
		want = "[10, x]"
	case data.Map:
		want = "{k: 1}"
	}
	verifAssert(err == nil, "print failed")
	verifAssert(out == "["+want+"]", "printed text differs from the language's rendering")
}

// H_dataref: $a[i], $a?[i], $a.k, $a?.k on every kind of $a; i symbolic in [-2,3] or a 1-byte key.
func H_dataref(form, ka int) {
	m := data.Map{}
	a := c01Bind(m, "a", ka)
	var acc ast.Node
	var idx int64
	var key string
	switch form {
	case 0, 1: // [int expr]
		idx = verifInt64()
		verifAssume(idx >= -2 && idx <= 3)
		m["i"] = data.Int(idx)
		acc = &ast.DataRefExprNode{NullSafe: form == 1, Arg: &ast.DataRefNode{Key: "i"}}
	case 2, 3: // .key
		key = "k"
		if verifBool() {
			key = "z"
		}
		acc = &ast.DataRefKeyNode{NullSafe: form == 3, Key: key}
	case 4, 5: // [string expr]
		key = verifString(1)
		m["i"] = data.String(key)
		acc = &ast.DataRefExprNode{NullSafe: form == 5, Arg: &ast.DataRefNode{Key: "i"}}
	}
	nullsafe := form%2 == 1
	got, err := evalWith(&ast.DataRefNode{Key: "a", Access: []ast.Node{acc}}, m)
	switch x := a.(type) {
	case data.Undefined, data.Null:
		if nullsafe {
			verifAssert(err == nil && sameValue(got, data.Null{}), "null-safe access of null/undefined must yield null")
		} else {
			verifAssert(err != nil, "access of null/undefined must fail")
		}
	case data.List:
		if form >= 2 {
			verifAssert(err != nil, "list accessed with a key must fail")
		} else if idx >= 0 && idx < int64(len(x)) {
			verifAssert(err == nil && sameValue(got, x[idx]), "list index")
		} else {
			// past the end: no value; the reference is undefined so that printing it fails
			verifAssert(err != nil || sameValue(got, data.Undefined{}), "list index out of range must have no value")
		}
	case data.Map:
		switch {
		case form < 2:
			// an integer index on a map is looked up by... the language leaves it without a value
			verifAssert(err != nil || sameValue(got, data.Undefined{}), "map accessed with an integer must have no value")
		case key == "k":
			verifAssert(err == nil && sameValue(got, data.Int(1)), "map key")
		default:
			verifAssert(err != nil || sameValue(got, data.Undefined{}), "absent map key must have no value")
		}
	default:
		verifAssert(err != nil, "indexing a non-collection must fail")
	}
}

// ---- chains of accesses ----

// c01Step: reference for one access step (form 0 [0], 1 ?[0], 2 .k, 3 ?.k, 4 [1], 5 .z) on value v.
// kind: 0 a value, 1 must fail, 2 null-safe short-circuit (the whole reference is null),
// 3 no value (fails, or undefined).
func c01Step(v data.Value, form int) (data.Value, int) {
	nullsafe := form == 1 || form == 3
	switch x := v.(type) {
	case data.Undefined, data.Null:
		if nullsafe {
			return data.Null{}, 2
		}
		return nil, 1
	case data.List:
		switch form {
		case 0, 1:
			if len(x) > 0 {
				return x[0], 0
			}
			return nil, 3
		case 4:
			if len(x) > 1 {
				return x[1], 0
			}
			return nil, 3
		}
		return nil, 1
	case data.Map:
		switch form {
		case 2, 3:
			if e, ok := x["k"]; ok {
				return e, 0
			}
			return nil, 3
		case 5:
			if e, ok := x["z"]; ok {
				return e, 0
			}
			return nil, 3
		}
		return nil, 3
	}
	return nil, 1
}

func c01Access(form int) ast.Node {
	switch form {
	case 0, 1:
		return &ast.DataRefIndexNode{NullSafe: form == 1, Index: 0}
	case 2, 3:
		return &ast.DataRefKeyNode{NullSafe: form == 3, Key: "k"}
	case 4:
		return &ast.DataRefExprNode{Arg: &ast.IntNode{Value: 1}}
	}
	return &ast.DataRefKeyNode{Key: "z"}
}

// H_datarefChain: $a<f1><f2>[<f3>] on scalars, collections and nested collections (some holding
// null): a null-safe access of null ends the whole reference with null, any other access of
// null/undefined fails, otherwise the accesses apply left to right. f3 = -1: two accesses.
func H_datarefChain(f1, f2, f3, ka int) {
	m := data.Map{}
	var a data.Value
	inner := data.Int(verifInt64())
	switch {
	case ka <= 8:
		a = c01Bind(m, "a", ka)
	case ka == 9:
		a = data.Map{"k": data.Map{"k": inner, "z": data.Null{}}, "z": data.List{data.List{inner}}}
	case ka == 10:
		a = data.List{data.List{inner, data.Map{"k": inner}}, data.Map{"k": data.List{inner}}}
	case ka == 11:
		a = data.Map{"k": data.Null{}, "z": data.Map{}}
	case ka == 12:
		a = data.List{data.Null{}, data.List{}}
	}
	if ka > 8 {
		m["a"] = a
	}
	forms := []int{f1, f2}
	if f3 >= 0 {
		forms = append(forms, f3)
	}
	var acc []ast.Node
	for _, f := range forms {
		acc = append(acc, c01Access(f))
	}
	got, err := evalWith(&ast.DataRefNode{Key: "a", Access: acc}, m)
	cur := a
	for i, f := range forms {
		next, kind := c01Step(cur, f)
		switch kind {
		case 1:
			verifAssert(err != nil, "an access of null/undefined or of a value of the wrong kind must fail")
			return
		case 2:
			verifAssert(err == nil && sameValue(got, data.Null{}), "a null-safe access of null must make the whole reference null")
			return
		case 3:
			// no value here: the step itself may fail; if it yields undefined, the next access
			// decides (null-safe: null, otherwise failure)
			if i == len(forms)-1 {
				verifAssert(err != nil || sameValue(got, data.Undefined{}), "an absent element must have no value")
			} else if nf := forms[i+1]; nf == 1 || nf == 3 {
				verifAssert(err != nil || sameValue(got, data.Null{}), "a null-safe access of an absent element must be null (or fail)")
			} else {
				verifAssert(err != nil, "an access of an absent element must fail")
			}
			return
		}
		cur = next
	}
	verifAssert(err == nil && sameValue(got, cur), "a chain of accesses must yield the addressed element")
}

// H_collFuncs: augmentMap / keys / length over maps whose key sets are chosen symbolically (each of
// the keys a, b, c is in the first map, the second map, both or neither, with different values):
// the second map's entries win, every other entry of the first map is kept, nothing else appears.
func H_collFuncs() {
	keys := []string{"a", "b", "c"}
	m1, m2 := data.Map{}, data.Map{}
	want := map[string]int64{}
	for i, k := range keys {
		if verifBool() {
			m1[k] = data.Int(int64(10 + i))
			want[k] = int64(10 + i)
		}
	}
	for i, k := range keys {
		if verifBool() {
			m2[k] = data.Int(int64(20 + i))
			want[k] = int64(20 + i)
		}
	}
	m := data.Map{"m": m1, "n": m2}
	got, err := evalWith(&ast.FunctionNode{Name: "augmentMap", Args: []ast.Node{&ast.DataRefNode{Key: "m"}, &ast.DataRefNode{Key: "n"}}}, m)
	verifAssert(err == nil, "augmentMap of two maps failed")
	gm, ok := got.(data.Map)
	verifAssert(ok && len(gm) == len(want), "augmentMap: wrong set of keys")
	for k, v := range want {
		verifAssert(sameValue(gm[k], data.Int(v)), "augmentMap: the second map's entries must win, the first map's other entries stay")
	}
	verifAssert(len(m1)+len(m2) >= len(gm), "augmentMap invented entries")
	n, err := evalWith(&ast.FunctionNode{Name: "length", Args: []ast.Node{&ast.FunctionNode{Name: "keys", Args: []ast.Node{&ast.DataRefNode{Key: "m"}}}}}, m)
	verifAssert(err == nil && sameValue(n, data.Int(int64(len(m1)))), "length(keys(m)) is not the number of entries")
}
