package soyhtml

import (
	"bytes"
	"github.com/robfig/soy/soymsg"
	"math"

	"github.com/robfig/soy/ast"
	"github.com/robfig/soy/data"
)

var c06Funcs = []string{"isNonnull", "length", "keys", "augmentMap", "round", "floor", "ceiling", "min", "max", "randomInt",
	"strContains", "range", "hasData", "noSuchFunction"}

// c06Arg: like c01Val but with small ints (functions such as range materialise lists).
func c06Arg(m data.Map, name string, k int) data.Value {
	if k == 3 {
		// concrete per path: loops over these (range) must not build unbounded symbolic terms
		i := int64(verifChoose(9)) - 4
		m[name] = data.Int(i)
		return data.Int(i)
	}
	return c01Bind(m, name, k)
}

// H_func: built-in function fn applied to nargs arguments of kinds k1,k2,k3 (k3 in {int, string,
// undefined}). C06: the evaluation returns (value or error), no panic escapes, no unbounded loop.
// C01: for well-typed arguments the value is the one the language defines.
func H_func(fn, nargs, k1, k2, k3 int) {
	if nargs < 3 && k3 != 0 || nargs < 2 && k2 != 0 || nargs < 1 && k1 != 0 {
		return // canonical representative of the unused kinds only
	}
	if k3 == 1 {
		k3 = 3
	} else if k3 == 2 {
		k3 = 5
	}
	m := data.Map{}
	kinds := []int{k1, k2, k3}
	names := []string{"a", "b", "c"}
	var args []ast.Node
	var vals []data.Value
	for i := 0; i < nargs; i++ {
		vals = append(vals, c06Arg(m, names[i], kinds[i]))
		args = append(args, &ast.DataRefNode{Key: names[i]})
	}
	got, err := evalWith(&ast.FunctionNode{Name: c06Funcs[fn], Args: args}, m)
	// C06 is decided by the engine: reaching this line means the call returned.
	name := c06Funcs[fn]
	isInt := func(i int) (int64, bool) {
		if i >= len(vals) {
			return 0, false
		}
		x, ok := vals[i].(data.Int)
		return int64(x), ok
	}
	switch {
	case name == "noSuchFunction":
		verifAssert(err != nil, "C01: unknown function evaluated")
	case name == "isNonnull" && nargs == 1:
		_, isNull := vals[0].(data.Null)
		verifAssert(err == nil && sameValue(got, data.Bool(!(isNull || k1 == 0))), "C01: isNonnull")
	case name == "length" && nargs == 1 && k1 == 7:
		verifAssert(err == nil && sameValue(got, data.Int(2)), "C01: length")
	case name == "hasData" && nargs == 0:
		verifAssert(err == nil && sameValue(got, data.Bool(true)), "C01: hasData")
	case name == "keys" && nargs == 1 && k1 == 8:
		l, ok := got.(data.List)
		verifAssert(err == nil && ok && len(l) == 1 && sameValue(l[0], data.String("k")), "C01: keys")
	case name == "augmentMap" && nargs == 2 && k1 == 8 && k2 == 8:
		mm, ok := got.(data.Map)
		verifAssert(err == nil && ok && len(mm) == 1 && sameValue(mm["k"], data.Int(1)), "C01: augmentMap")
	case (name == "min" || name == "max") && nargs == 2 && (k1 == 3 || k1 == 4) && (k2 == 3 || k2 == 4) && (k1 == 4 || k2 == 4):
		// a float operand: the IEEE minimum/maximum of both operands as floats (argument order kept)
		fa, fb := c06Float(vals[0]), c06Float(vals[1])
		want := data.Float(math.Min(fa, fb))
		if name == "max" {
			want = data.Float(math.Max(fa, fb))
		}
		verifAssert(err == nil && sameValue(got, want), "C01: min/max with a float operand")
	case (name == "min" || name == "max") && nargs == 2:
		a, aok := isInt(0)
		b, bok := isInt(1)
		if aok && bok {
			want := a
			if (name == "min") == (b < a) {
				want = b
			}
			verifAssert(err == nil && sameValue(got, data.Int(want)), "C01: min/max of ints")
		}
	case (name == "floor" || name == "ceiling" || name == "round") && nargs == 1:
		if a, ok := isInt(0); ok {
			verifAssert(err == nil && sameValue(got, data.Int(a)), "C01: floor/ceiling/round of an int")
		}
		if f, ok := vals[0].(data.Float); ok && name != "round" {
			// which IEEE operation is applied (implementation and reference build the same term)
			want := data.Int(math.Floor(float64(f)))
			if name == "ceiling" {
				want = data.Int(math.Ceil(float64(f)))
			}
			verifAssert(err == nil && sameValue(got, want), "C01: floor/ceiling of a float")
		}
	case name == "randomInt" && nargs == 1:
		if a, ok := isInt(0); ok && a > 0 {
			r, isI := got.(data.Int)
			verifAssert(err == nil && isI && int64(r) >= 0 && int64(r) < a, "C01: randomInt out of range")
		}
	case name == "strContains" && nargs == 2 && k1 == 6 && k2 == 5:
		verifAssert(err == nil && sameValue(got, data.Bool(false)), "C01: strContains: the empty string contains no 1-byte string")
	case name == "strContains" && nargs == 2 && k1 == 5 && k2 == 6:
		verifAssert(err == nil && sameValue(got, data.Bool(true)), "C01: strContains: every string contains the empty string")
	case name == "strContains" && nargs == 2 && k1 == 5 && k2 == 5:
		verifAssert(err == nil && sameValue(got, data.Bool(vals[0].(data.String) == vals[1].(data.String))), "C01: strContains on 1-byte strings")
	case name == "range":
		a, aok := isInt(0)
		b, bok := isInt(1)
		c, cok := isInt(2)
		var lo, hi, st int64 = 0, a, 1
		ok := aok
		if nargs >= 2 {
			lo, hi, ok = a, b, aok && bok
		}
		if nargs == 3 {
			st, ok = c, ok && cok
		}
		if ok && nargs >= 1 && st > 0 {
			l, isL := got.(data.List)
			verifAssert(err == nil && (isL || got == nil || lo >= hi), "C01: range yields a list")
			n := 0
			for x := lo; x < hi; x += st {
				verifAssert(n < len(l) && sameValue(l[n], data.Int(x)), "C01: range element")
				n++
			}
			verifAssert(len(l) == n, "C01: range length")
		}
	}
}

func c06Float(v data.Value) float64 {
	switch x := v.(type) {
	case data.Int:
		return float64(x)
	case data.Float:
		return float64(x)
	}
	return 0
}

// H_strContains: strContains(h, n) for a haystack of hn and a needle of nn symbolic bytes against
// the naive substring search.
func H_strContains(hn, nn int) {
	h, n := verifString(hn), verifString(nn)
	m := data.Map{"h": data.String(h), "n": data.String(n)}
	got, err := evalWith(&ast.FunctionNode{Name: "strContains", Args: []ast.Node{&ast.DataRefNode{Key: "h"}, &ast.DataRefNode{Key: "n"}}}, m)
	want := false
	for i := 0; i+len(n) <= len(h); i++ {
		if h[i:i+len(n)] == n {
			want = true
		}
	}
	verifAssert(err == nil && sameValue(got, data.Bool(want)), "C01: strContains is not substring containment")
}

// H_evalExpr: EvalExpr (no template context) on expressions that fail and that succeed.
func H_evalExpr(op, ka int) {
	var a ast.Node
	switch ka {
	case 0:
		a = &ast.DataRefNode{Key: "nope"}
	case 1:
		a = &ast.NullNode{}
	case 2:
		a = &ast.BoolNode{True: verifBool()}
	case 3:
		a = &ast.IntNode{Value: verifInt64()}
	case 4:
		a = &ast.FloatNode{Value: verifFloat64()}
	case 5:
		a = &ast.StringNode{Value: verifString(1)}
	case 6:
		a = &ast.ListLiteralNode{Items: []ast.Node{&ast.IntNode{Value: 1}}}
	case 7:
		a = &ast.FunctionNode{Name: "length", Args: []ast.Node{&ast.IntNode{Value: 1}}}
	case 8:
		a = &ast.GlobalNode{Name: "G"}
	}
	node := c01BinNode(op, a, &ast.IntNode{Value: 2})
	v, err := EvalExpr(node)
	verifAssert((v == nil) == (err != nil) || err == nil, "C06: EvalExpr result shape")
}

var c06Bodies = []string{
	"{$x.y.z}",                      // null/undefined access
	"{1 % 0}",                       // integer division by zero
	"{$ij.foo}",                     // missing injected data
	"{length($x)}",                  // wrong argument type
	"{$x|truncate:'a'}",             // wrong directive argument type
	"{$x|noSuchDirective}",          // unknown directive
	"{foreach $i in $x}a{/foreach}", // not a list
	"{call .nope /}",                // unknown template (fails the data ref check unless called dynamically)
	"{$x + [1]}",                    // no value
	"{$x|truncate}",                 // wrong directive arity
	"{range(1, 5, 0)|noAutoescape}", // zero step
	"{'a' < 1}",                     // ordering non-numbers
}

// H_renderFail: a failing command at call depth d in a two-file bundle where the second file
// defines a template of the same name with less text before it.
func H_renderFail(body, depth int, dup bool) {
	f1 := "{namespace a}\n\n\n\n\n/** @param? x */\n{template .t0}\n  a\n  b {call .t1 data=\"all\"/}\n{/template}\n" +
		"/** @param? x */\n{template .t1}\n  {call .t2 data=\"all\"/}\n{/template}\n" +
		"/** @param? x */\n{template .t2}\n  c\n  d" + c06Bodies[body] + "\n{/template}\n"
	srcs := []string{f1}
	if dup {
		srcs = append(srcs, "{namespace a}\n/** */\n{template .t2}\nshort\n{/template}\n/** */\n{template .t1}\nshort\n{/template}\n/** */\n{template .t0}\ns\n{/template}\n")
	}
	tofu, cerr := verifCompile(srcs...)
	if cerr != nil {
		return // rejected at compile time: nothing to render
	}
	entry := []string{"a.t2", "a.t1", "a.t0"}[depth]
	out, err := verifRender(tofu, entry, data.Map{"x": data.Null{}})
	verifObserve("out", out)
	if err != nil {
		verifObserve("res", "error")
	} else {
		verifObserve("res", "ok")
	}
	if body != 7 {
		verifAssert(err != nil, "C06: a failing command rendered without error")
	}
}

var c06Dirs = []string{"insertWordBreaks", "changeNewlineToBr", "truncate", "id", "noAutoescape", "escapeHtml", "escapeUri", "escapeJsString",
	"bidiSpanWrap", "bidiUnicodeWrap", "json", "noSuchDirective"}

// H_directive: {$a|dir:args} for every built-in directive (and an unknown one) with 0..2 arguments
// of any kind on a value of any kind: the print returns (output or error), no panic escapes.
func H_directive(dir, nargs, ka, k1, k2 int) {
	if nargs < 2 && k2 != 0 || nargs < 1 && k1 != 0 {
		return
	}
	if c06Dirs[dir] == "json" && (ka == 2 || ka == 4 || ka == 5 || ka == 7 || ka == 8) {
		return // encoding/json on symbolic payloads works through reflection: outside the engine
	}
	if c06Dirs[dir] == "changeNewlineToBr" && ka == 5 {
		return // regexp on symbolic text is outside the engine (checked with concrete strings under C16)
	}
	if ka == 4 {
		return // printing a symbolic float (strconv.FormatFloat) is outside the engine
	}
	m := data.Map{}
	c06Arg(m, "a", ka)
	var args []ast.Node
	for i, k := range []int{k1, k2}[:nargs] {
		name := []string{"b", "c"}[i]
		c06Arg(m, name, k)
		args = append(args, &ast.DataRefNode{Key: name})
	}
	var buf bytes.Buffer
	st := &state{wr: &buf, context: newScope(m), autoescape: ast.AutoescapeOn}
	st.tmpl.Node = &ast.TemplateNode{Name: "t"}
	var err error
	func() {
		defer st.errRecover(&err)
		st.walk(&ast.PrintNode{Arg: &ast.DataRefNode{Key: "a"}, Directives: []*ast.PrintDirectiveNode{{Name: c06Dirs[dir], Args: args}}})
	}()
	if err != nil {
		verifObserve("res", "error")
	} else {
		verifObserve("res", "ok")
	}
	if c06Dirs[dir] == "noSuchDirective" || ka == 0 {
		verifAssert(err != nil, "C06: unknown directive or undefined value printed without error")
	}
}

// c06StaleBundle: a catalogue whose translation of every message does not fit the message any
// more: it names a placeholder the message lacks (kind 0), is a plural for a message that is not
// (1), selects a plural case that does not exist (2), or has no parts at all (3).
type c06StaleBundle struct{ kind int }

func (b c06StaleBundle) Locale() string { return "xx" }
func (b c06StaleBundle) Message(id uint64) *soymsg.Message {
	switch b.kind {
	case 0:
		return &soymsg.Message{ID: id, Parts: []soymsg.Part{soymsg.RawTextPart{Text: "t "}, soymsg.PlaceholderPart{Name: "NO_SUCH_PLACEHOLDER"}}}
	case 1:
		return &soymsg.Message{ID: id, Parts: []soymsg.Part{soymsg.PluralPart{VarName: "NO_SUCH_VAR", Cases: []soymsg.PluralCase{{Spec: soymsg.PluralSpec{Type: soymsg.PluralSpecOther}, Parts: []soymsg.Part{soymsg.RawTextPart{Text: "x"}}}}}}}
	case 2:
		return &soymsg.Message{ID: id, Parts: []soymsg.Part{soymsg.PluralPart{VarName: "X_1", Cases: nil}}}
	}
	return &soymsg.Message{ID: id}
}
func (b c06StaleBundle) PluralCase(n int) int { return 3 }

// H_staleTranslation (C06): rendering through a catalogue whose entries do not match the messages
// returns output or an error, directly and one call deep, for plain and plural messages.
func H_staleTranslation(kind, tpl int) {
	srcs := []string{
		"{namespace a}\n/** @param x */\n{template .t}\nA{msg desc=\"d\"}Hi {$x}{/msg}B\n{/template}\n",
		"{namespace a}\n/** @param x */\n{template .t}\nA{call .u data=\"all\"/}B\n{/template}\n/** @param x */\n{template .u}\n{msg desc=\"d\"}Hi <b>{$x}</b>{/msg}\n{/template}\n",
		"{namespace a}\n/** @param x */\n{template .t}\nA{msg desc=\"d\"}{plural $x}{case 1}one{default}{$x} many{/plural}{/msg}B\n{/template}\n",
	}
	tofu := verifMustCompile(srcs[tpl])
	var out []byte
	err := tofu.NewRenderer("a.t").WithMessages(c06StaleBundle{kind}).Execute(&sliceWriter{&out}, data.Map{"x": data.Int(int64(verifChoose(3)))})
	verifObserve("out", string(out))
	if err != nil {
		verifObserve("res", "error")
	}
	// (reaching this line is the verdict: no panic escaped, no unbounded loop)
}

// H_afterNotFound (C06): a render of a template the bundle lacks returns ErrTemplateNotFound (or an
// error from a {call} to a missing template), and renders after it still return (kind selects the
// first step: missing entry template, missing callee through a dynamic bundle, plain render).
func H_afterNotFound(kind int) {
	tofu, cerr := verifCompileNoCheck("{namespace a}\n/** @param x */\n{template .t}\n[{$x}]{call .u data=\"all\"/}\n{/template}\n/** @param x */\n{template .u}\n({$x})\n{/template}\n/** */\n{template .c}\n{call a.missing /}\n{/template}\n")
	verifAssert(cerr == nil, "harness: bundle does not compile")
	m := data.Map{"x": data.String(verifString(1))}
	switch kind {
	case 0:
		_, err := verifRender(tofu, "a.nope", m)
		verifAssert(err != nil, "C06: rendering a template that does not exist returned no error")
	case 1:
		_, err := verifRender(tofu, "a.c", m)
		verifAssert(err != nil, "C06: calling a template that does not exist returned no error")
	}
	for i := 0; i < 2; i++ {
		out, err := verifRender(tofu, "a.t", m)
		verifObserve("out", out)
		verifAssert(err == nil, "C06: a render after a failed lookup failed")
	}
}
