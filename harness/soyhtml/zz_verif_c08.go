package soyhtml

import (
	"sync"

	"github.com/robfig/soy/ast"
	"github.com/robfig/soy/data"
	"github.com/robfig/soy/soymsg"
)

var c08Templates = [][]string{
	// 0: prints, let, if, foreach, call with data=all and params, across two files
	{"{namespace a}\n/** @param x\n @param l\n @param m */\n{template .t}\n{$x}{let $y: $x /}{if $x}[{$y}]{/if}{foreach $i in $l}{$i}{isLast($i) ? '' : ','}{ifempty}none{/foreach}" +
		"{call b.u data=\"all\"}{param p: $x /}{param q}<{$x}>{/param}{/call}{call .v data=\"$m\" /}{call .v data=\"$m ?: $m\"}{param k: $x /}{param j}c{/param}{/call}{call .v data=\"$x ? $m : $m\"}{param j: 1 /}{/call}{call .v data=\"$m\"}{param k: 2 /}{/call}\n{/template}\n/** @param? k\n @param? j */\n{template .v autoescape=\"false\"}\n({$k}{$j ?: ''}){let $k2: 1/}{$k2}\n{/template}\n",
		"{namespace b}\n/** @param x\n @param p\n @param q\n @param l */\n{template .u}\n{$p}{$q|noAutoescape}{let $x2: $x /}{foreach $j in $l}{$j}{/foreach}{$x2|escapeUri}{call .raw data=\"all\"/}{$x}\n{/template}\n/** @param x */\n{template .raw autoescape=\"false\"}\n{$x}\n{/template}\n"},
	// 1: msg, css, switch, literal, globals-free expressions, map/list literals
	{"{namespace a}\n/** @param x\n @param l */\n{template .t}\n{foreach $e in $l}{$e}{/foreach}{msg desc=\"d\"}Hi <b>{$x}</b>{/msg}{msg desc=\"p\"}<span class=\"c\" phname=\"strong\">{$x}</span><br phname=\"lb\"/>{/msg}{css $x, c}{switch $x}{case 'a'}A{default}D{/switch}" +
		"{let $mm: ['k': $x, 'j': [1, 2]] /}{$mm['k']}{$mm.j[1]}{keys($mm)|length}{let $am: augmentMap($mm, ['z': 1]) /}{$am.z}{$ij.inj}\n{/template}\n"},
	// 2: a template that fails half way (undefined print after output and a let)
	{"{namespace a}\n/** @param x\n @param? l\n @param? u */\n{template .t}\nbefore{if $l}L{/if}{let $y: $x /}{$y}{call .w data=\"all\"}{param z: 1 /}{/call}{$u}after\n{/template}\n/** @param x\n @param z */\n{template .w}\n{$x}{$z}\n{/template}\n"},
	// 3: rendered through a translating catalogue: two messages with the same text and placeholder
	// names (hence the same id) whose placeholders stand for different content
	{"{namespace a}\n/** @param x */\n{template .t}\n{msg desc=\"d\"}Go <a href=\"/beta\">{$x|noAutoescape}</a>!{/msg}{msg desc=\"e\"}untranslated {$x}{/msg}{msg desc=\"pl\"}{plural 2}{case 1}one <i>{$x}</i>{default}many <b>{$x}</b> x{/plural}{/msg}\n{/template}\n" +
		"/** @param x */\n{template .other}\n{msg desc=\"d\"}Go <a href=\"/alpha\">{$x}</a>!{/msg}\n{/template}\n"},
	// 4: a template that calls itself 12 levels deep with data="all" plus a param; calls with data
	// taken from an empty map, a map holding the param's key, and a map expression, plus params
	{"{namespace a}\n/** @param x\n @param e\n @param m\n @param? n */\n{template .t}\n{$x}{call .r data=\"all\"}{param n: 0 /}{/call}" +
		"{call .v data=\"$e\"}{param k: $x /}{/call}{call .v data=\"$m\"}{param k: 2 /}{param j}c{/param}{/call}{call .v data=\"$e\" /}{$e}{$m.k}\n{/template}\n" +
		"/** @param x\n @param n */\n{template .r}\n[{$n}{$x}]{if $n < 12}{call .r data=\"all\"}{param n: $n + 1 /}{/call}{/if}\n{/template}\n" +
		"/** @param? k\n @param? j */\n{template .v}\n({$k ?: '-'}{$j ?: '-'})\n{/template}\n"},
}

// c08Catalogue translates every message whose text is "Go <a>X</a>!".
type c08Catalogue struct {
	ids    map[uint64]bool
	plural map[uint64]string // plural variable name of the messages that are plurals
}

func (b c08Catalogue) Locale() string { return "xx" }
func (b c08Catalogue) Message(id uint64) *soymsg.Message {
	if !b.ids[id] {
		return nil
	}
	if b.plural[id] != "" {
		return &soymsg.Message{ID: id, Parts: []soymsg.Part{soymsg.PluralPart{VarName: b.plural[id], Cases: []soymsg.PluralCase{
			{Spec: soymsg.PluralSpec{Type: soymsg.PluralSpecOne}, Parts: []soymsg.Part{soymsg.RawTextPart{Text: "un "}, soymsg.PlaceholderPart{Name: "X"}}},
			{Spec: soymsg.PluralSpec{Type: soymsg.PluralSpecOther}, Parts: []soymsg.Part{soymsg.RawTextPart{Text: "des "}, soymsg.PlaceholderPart{Name: "START_BOLD"}, soymsg.PlaceholderPart{Name: "X"}, soymsg.PlaceholderPart{Name: "END_BOLD"}}},
		}}}}
	}
	return &soymsg.Message{ID: id, Parts: []soymsg.Part{soymsg.RawTextPart{Text: "Va "}, soymsg.PlaceholderPart{Name: "START_LINK"},
		soymsg.PlaceholderPart{Name: "X"}, soymsg.PlaceholderPart{Name: "END_LINK"}, soymsg.RawTextPart{Text: " !"}}}
}
func (b c08Catalogue) PluralCase(n int) int {
	if n == 1 {
		return 0
	}
	return 1
}

func c08MakeCatalogue(t *Tofu) soymsg.Bundle {
	b := c08Catalogue{map[uint64]bool{}, map[uint64]string{}}
	var walk func(n ast.Node)
	walk = func(n ast.Node) {
		if m, ok := n.(*ast.MsgNode); ok && m.Desc == "d" {
			b.ids[m.ID] = true
		}
		if m, ok := n.(*ast.MsgNode); ok && m.Desc == "pl" {
			b.ids[m.ID] = true
			for _, c := range m.Body.Children() {
				if pl, ok := c.(*ast.MsgPluralNode); ok {
					b.plural[m.ID] = pl.VarName
				}
			}
		}
		if p, ok := n.(ast.ParentNode); ok {
			for _, c := range p.Children() {
				walk(c)
			}
		}
	}
	for _, tp := range t.registry.Templates {
		walk(tp.Node)
	}
	return b
}

var c08Msgs soymsg.Bundle // catalogue used by verifRenderIJ (nil: none)

func c08Data(d int) data.Map {
	x := data.String(verifString(1))
	var l data.List
	switch d {
	case 0:
		l = data.List{}
	case 1:
		l = data.List{data.Int(1), x}
	}
	return data.Map{"x": x, "l": l, "m": data.Map{"k": x}, "e": data.Map{}}
}

func verifBang(v data.Value, _ []data.Value) data.Value { return data.String(v.String() + "!") }

const c08Failing = "{namespace f}\n/** @param? u */\n{template .block}\nA{let $z}before{$u.nope}{/let}{$z}\n{/template}\n" +
	"/** @param? u */\n{template .param}\nB{call .w}{param z}x{$u.nope}{/param}{/call}\n{/template}\n/** @param z */\n{template .w}\n{$z}\n{/template}\n" +
	"/** @param? u */\n{template .log}\nC{log}l{$u.nope}{/log}\n{/template}\n/** @param? u */\n{template .plain}\nD{$u.nope}\n{/template}\n" +
	"/** @param? u */\n{template .blockok}\n{let $w}W{$u ?: ''}{/let}[{$w}]{let $w2}V{/let}{$w2}\n{/template}\n"

var c08Prior = []string{"", "f.block", "f.param", "f.log", "f.plain", "", "a.other", "", "f.blockok"}

// H_pure: renders of template set t with the same (symbolic) data under frozen memory: every
// cell reachable from the compiled registry, the data map, the injected data and all
// package-level variables of soy is read-only during the renders. oblig installs an obligatory
// print directive. prior selects what happens before: nothing, a render that fails inside a let
// content block / a param content block / a log block / a print (1..4), or a render of the same
// template into a writer that starts failing at a symbolically chosen write (5). The renders after
// it must write exactly what the very first render wrote. Template set 3 is rendered through a
// translating catalogue; prior 6 renders another template of that set (a.other) in between.
func H_pure(t, d int, oblig bool, prior int) {
	tofu := verifMustCompile(append(append([]string{}, c08Templates[t]...), c08Failing)...)
	c08Msgs = nil
	if t == 3 {
		c08Msgs = c08MakeCatalogue(tofu)
	} else if prior == 6 {
		return
	}
	if t == 3 && prior == 7 {
		return
	}
	if oblig {
		PrintDirectives["verifBang"] = PrintDirective{verifBang, []int{0}, false}
		ObligatoryPrintDirectiveNames = []string{"verifBang"}
	}
	m, ij := c08Data(d), data.Map{"inj": data.String("I")}
	shared := tofu.NewRenderer("a.t").Inject(ij)
	if c08Msgs != nil {
		shared = shared.WithMessages(c08Msgs)
	}
	before, beforeG := verifDeepDigest(tofu, m, ij, shared), verifGlobalsDigest()
	verifFreeze("compiled registry", tofu)
	verifFreeze("renderer", shared)
	verifFreeze("caller data", m, ij)
	verifFreezeGlobals()
	out0, err0 := verifRenderIJ(tofu, "a.t", m, ij)
	switch {
	case prior >= 1 && prior <= 4:
		_, perr := verifRenderIJ(tofu, c08Prior[prior], m, ij)
		verifAssert(perr != nil, "harness: the prior render was meant to fail")
	case prior == 8:
		// a template whose only top-level bindings are block-form lets, rendered with the same data map
		po, perr := verifRenderIJ(tofu, c08Prior[prior], m, ij)
		verifAssert(perr == nil && po == "[W]V", "harness: the prior render of f.blockok")
	case prior == 5:
		w := &faultWriter{}
		tofu.NewRenderer("a.t").Inject(ij).Execute(w, m)
	case prior == 7:
		// another configuration of the obligatory directives in between (the list is replaced by one
		// of the same length and restored): the later renders must not see the interlude
		if !oblig {
			return
		}
		verifUnfreeze()
		ObligatoryPrintDirectiveNames = []string{"escapeUri"}
		oi, _ := verifRenderIJ(tofu, "a.t", m, ij)
		// (verifBang appends "!" to every printed value, escapeUri never does: the two
		// configurations cannot write the same bytes for a template that prints something)
		verifAssert(oi != out0, "a render under another configuration of the obligatory print directives writes what the earlier configuration wrote")
		ObligatoryPrintDirectiveNames = []string{"verifBang"}
		verifFreeze("compiled registry", tofu)
		verifFreeze("renderer", shared)
		verifFreeze("caller data", m, ij)
		verifFreezeGlobals()
	case prior == 6:
		po, perr := verifRenderIJ(tofu, c08Prior[prior], m, ij)
		verifAssert(perr == nil, "harness: the prior render failed")
		verifObserve("prior", po)
		// what a.other writes is known: its own link around the escaped value
		const pre, suf = "Va <a href=\"/alpha\">", "</a> !"
		verifAssert(len(po) >= len(pre)+len(suf) && po[:len(pre)] == pre && po[len(po)-len(suf):] == suf,
			"a render after a render of another template writes that template's content")
		mid, ok := decodeEntities(po[len(pre) : len(po)-len(suf)])
		verifAssert(ok && mid == string(m["x"].(data.String)), "a render after a render of another template loses its escaping")
	}
	// the later renders go through the one Renderer created (and frozen) before the first render:
	// a Renderer carries no per-render state, Execute may be called on it any number of times
	exec := func() (string, error) {
		var out []byte
		err := shared.Execute(&sliceWriter{&out}, m)
		return string(out), err
	}
	out1, err1 := exec()
	out2, err2 := exec()
	verifUnfreeze()
	after, afterG := verifDeepDigest(tofu, m, ij, shared), verifGlobalsDigest()
	verifObserve("out", out0)
	verifAssert((err0 == nil) == (err1 == nil) && (err1 == nil) == (err2 == nil), "a later render of the same template with the same data differs in outcome")
	verifAssert(out0 == out1 && out1 == out2, "a later render of the same template with the same data writes different bytes")
	verifAssert(before == after, "native: the compiled bundle, the data or the renderer changed during rendering")
	if verifConfirmingFrozen() {
		verifAssert(beforeG == afterG, "native: a package-level variable changed during rendering")
	}
	if !verifSymbolic() {
		// native only (confirms findings about shared state): overlapping renders write what one writes alone
		var wg sync.WaitGroup
		outs := make([]string, 16)
		for g := range outs {
			wg.Add(1)
			go func(g int) {
				defer wg.Done()
				for r := 0; r < 20; r++ {
					o, _ := verifRenderIJ(tofu, "a.t", m, ij)
					if g%2 == 1 {
						o, _ = exec() // half of the goroutines share the one Renderer
					}
					if o != out0 {
						outs[g] = o
					}
				}
			}(g)
		}
		wg.Wait()
		for g := range outs {
			verifAssert(outs[g] == "", "native: a concurrent render wrote bytes that differ from a render run alone")
		}
	}
}

func verifRenderIJ(t *Tofu, name string, m, ij data.Map) (string, error) {
	w := &faultWriter{}
	w.failed = false
	var out []byte
	sink := &sliceWriter{&out}
	r := t.NewRenderer(name).Inject(ij)
	if c08Msgs != nil {
		r = r.WithMessages(c08Msgs)
	}
	err := r.Execute(sink, m)
	return string(out), err
}

type sliceWriter struct{ b *[]byte }

func (w *sliceWriter) Write(p []byte) (int, error) {
	*w.b = append(*w.b, p...)
	return len(p), nil
}

// H_renderRace (C09): two goroutines render templates of one freshly compiled bundle at once -
// through Tofu.Render (via 0), through one shared Renderer (via 1) or through a Renderer each
// (via 2); the second goroutine renders the same template (other 0) or another one (other 1) -
// under the happens-before check of every heap access and under both run-queue disciplines.
// Nothing has been rendered through this bundle before (caches, if any, are cold). The renders
// are race-free and each writes exactly what it writes alone (rendered alone through a second,
// identically compiled bundle).
func H_renderRace(t, d, via, other int) {
	srcs := append(append([]string{}, c08Templates[t]...), c08Failing)
	tofu, ref := verifMustCompile(srcs...), verifMustCompile(srcs...)
	c08Msgs = nil
	if t == 3 {
		c08Msgs = c08MakeCatalogue(tofu)
	}
	m, ij := c08Data(d), data.Map{"inj": data.String("I")}
	names := []string{"a.t", "a.t"}
	if other == 1 {
		names[1] = "f.plain"
	}
	mk := func(tf *Tofu, name string) *Renderer {
		r := tf.NewRenderer(name).Inject(ij)
		if c08Msgs != nil {
			r = r.WithMessages(c08Msgs)
		}
		return r
	}
	shared := mk(tofu, "a.t")
	render := func(tf *Tofu, sh *Renderer, g int) string {
		var out []byte
		w := &sliceWriter{&out}
		var err error
		switch {
		case via == 0:
			err = tf.Render(w, names[g], m)
		case via == 1 && names[g] == "a.t":
			err = sh.Execute(w, m)
		default:
			err = mk(tf, names[g]).Execute(w, m)
		}
		if err != nil {
			return string(out) + " !error"
		}
		return string(out)
	}
	verifSchedChoice()
	verifRaceTrack(true)
	var wg sync.WaitGroup
	got := make([]string, 2)
	for g := 0; g < 2; g++ {
		wg.Add(1)
		go func(g int) {
			defer wg.Done()
			got[g] = render(tofu, shared, g)
		}(g)
	}
	wg.Wait()
	verifRaceTrack(false)
	refShared := mk(ref, "a.t")
	alone := []string{render(ref, refShared, 0), render(ref, refShared, 1)}
	verifObserve("out", alone[0])
	verifAssert(got[0] == alone[0] && got[1] == alone[1], "C09: a render running beside another one writes different bytes")
}
