package soyhtml

import (
	"github.com/robfig/soy/ast"
	"github.com/robfig/soy/data"
)

// every container in which a {msg} may appear
var c10Containers = []string{
	"%M",
	"{if $x}%M{/if}",
	"{if $x}a{elseif $x}%M{else}b{/if}",
	"{if $x}a{else}%M{/if}",
	"{switch $x}{case 1}%M{default}d{/switch}",
	"{switch $x}{case 1}c{default}%M{/switch}",
	"{foreach $i in $x}%M{/foreach}",
	"{foreach $i in $x}i{ifempty}%M{/foreach}",
	"{for $i in range(2)}%M{/for}",
	"{let $y}%M{/let}{$y}",
	"{call .u}{param p}%M{/param}{/call}",
	"{call .u}{param p}{if $x}%M{/if}{/param}{/call}",
	"{log}%M{/log}",
	"{let $y}{call .u}{param p}%M{/param}{/call}{/let}{$y}",
}

func c10Collect(n ast.Node, out *[]*ast.MsgNode) {
	if m, ok := n.(*ast.MsgNode); ok {
		*out = append(*out, m)
	}
	if p, ok := n.(ast.ParentNode); ok {
		for _, c := range p.Children() {
			c10Collect(c, out)
		}
	}
}

// H_msgPositions: the same message placed in container c and at top level of another template:
// after compilation both carry the same non-zero id and the same placeholder names, and a
// catalogue entry under that id is applied in both places (surrounding code does not matter).
func H_msgPositions(c int) {
	msg := "{msg desc=\"d\" meaning=\"m\"}Welcome <b>{$x}</b> {$x.y}{/msg}"
	body := ""
	for i := 0; i < len(c10Containers[c]); i++ {
		if c10Containers[c][i] == '%' && i+1 < len(c10Containers[c]) && c10Containers[c][i+1] == 'M' {
			body += msg
			i++
		} else {
			body += string(c10Containers[c][i])
		}
	}
	src := "{namespace n}\n/** @param x */\n{template .t}\n" + body + "\n{/template}\n/** @param x */\n{template .ref}\n" + msg + "\n{/template}\n" +
		"/** @param? p */\n{template .u}\n{$p ?: ''}\n{/template}\n"
	tofu := verifMustCompile(src)
	var inT, inRef []*ast.MsgNode
	for _, t := range tofu.registry.Templates {
		switch t.Node.Name {
		case "n.t":
			c10Collect(t.Node, &inT)
		case "n.ref":
			c10Collect(t.Node, &inRef)
		}
	}
	verifAssert(len(inT) == 1 && len(inRef) == 1, "harness: expected one message per template")
	verifAssert(inRef[0].ID != 0, "message id not assigned")
	verifAssert(inT[0].ID == inRef[0].ID, "message id depends on the surrounding code: "+c10Containers[c])
	a, b := inT[0].Body.Children(), inRef[0].Body.Children()
	verifAssert(len(a) == len(b), "message structure depends on the surrounding code")
	for i := range a {
		pa, oka := a[i].(*ast.MsgPlaceholderNode)
		pb, okb := b[i].(*ast.MsgPlaceholderNode)
		verifAssert(oka == okb, "message structure depends on the surrounding code")
		if oka {
			verifAssert(pa.Name == pb.Name && pa.Name != "", "placeholder names depend on the surrounding code: "+c10Containers[c])
		}
	}
	_ = data.Null{}
}
