package soyhtml

import (
	"bytes"
	"unicode/utf8"

	"github.com/robfig/soy/ast"
	"github.com/robfig/soy/data"
	"github.com/robfig/soy/soymsg"
)

var c03EscapeTofu *Tofu

// H_escape: the HTML escaper, reached through the public API (an autoescaped print of $x rendered
// by a Renderer), on every string of n bytes (all 256 values): no raw special character in the
// output and the output decodes back to exactly the value.
func H_escape(n int) {
	s := verifString(n)
	if c03EscapeTofu == nil {
		c03EscapeTofu = verifMustCompile("{namespace e}\n/** @param x */\n{template .t}\n{$x}\n{/template}\n")
	}
	out, err := verifRender(c03EscapeTofu, "e.t", data.Map{"x": data.String(s)})
	verifObserve("in", s)
	verifObserve("out", out)
	verifAssert(err == nil, "render failed")
	dec, ok := decodeEntities(out)
	verifAssert(ok, "raw special character or malformed entity in escaped output")
	verifAssert(dec == s, "escaped output does not decode to the value")
}

var c03Modes = []string{"", ` autoescape="true"`, ` autoescape="false"`, ` autoescape="contextual"`}

// directive chains: text, cancels autoescaping with raw output, escapes by itself
var c03Dirs = []struct {
	text       string
	raw        bool // documented to let raw data through (noAutoescape / id)
	selfEscape bool // HTML-producing directive that must escape what it passes through
}{
	{"", false, false},
	{"|noAutoescape", true, false},
	{"|id", true, false},
	{"|escapeHtml", false, true},
	{"|insertWordBreaks:30", false, true},
	{"|truncate:8", false, false},
	{"|truncate:8|escapeHtml", false, true},
	{"|insertWordBreaks:30|truncate:90", false, true},
	{"|insertWordBreaks:1", false, true},
}

// stripWbr removes the <wbr> markup insertWordBreaks adds (where it may be placed is C16's subject).
func stripWbr(s string) string {
	var out []byte
	for i := 0; i < len(s); {
		if len(s)-i >= 5 && s[i:i+5] == "<wbr>" {
			i += 5
			continue
		}
		out = append(out, s[i])
		i++
	}
	return string(out)
}

// contexts in which the print appears: %P is the print command, the entry template is a.t
var c03Ctx = []string{
	"{namespace a%NS}\n/** @param x */\n{template .t%TM}\n%P\n{/template}\n",
	"{namespace a%NS}\n/** @param x */\n{template .t%TM}\n{let $y}%P{/let}{$y|noAutoescape}\n{/template}\n",
	"{namespace a%NS}\n/** @param x */\n{template .t%TM}\n{call .u}{param c}%P{/param}{/call}\n{/template}\n/** @param c */\n{template .u%TM}\n{$c|noAutoescape}\n{/template}\n",
	"{namespace a%NS}\n/** @param x */\n{template .t%TM}\n{msg desc=\"d\"}m%Pm{/msg}\n{/template}\n",
	"{namespace a}\n/** @param x */\n{template .t autoescape=\"false\"}\n{call b.u data=\"all\"/}\n{/template}\n",
	"{namespace a autoescape=\"false\"}\n/** @param x */\n{template .t}\n{call b.u data=\"all\"/}\n{/template}\n",
	"{namespace a autoescape=\"true\"}\n/** @param x */\n{template .t}\n{call b.u}{param x: $x /}{/call}\n{/template}\n",
	// 7, 8: one namespace spread over two files whose declarations differ (caller's file first / last)
	"{namespace b autoescape=\"false\"}\n/** @param x */\n{template .t}\n{call .u data=\"all\"/}\n{/template}\n",
	"{namespace b autoescape=\"true\"}\n/** @param x */\n{template .t}\n{call .u data=\"all\"/}\n{/template}\n",
	// 9: in a message rendered through a translating (identity) catalogue, after a raw print of the same value
	"{namespace a%NS}\n/** @param x */\n{template .t%TM}\n{msg desc=\"d\"}m{$x|noAutoescape}-%Pm{/msg}\n{/template}\n",
	// 10, 11: after calls into templates of the same file with the opposite / an explicit mode (they print nothing)
	"{namespace a%NS}\n/** @param x */\n{template .t%TM}\n{call .off data=\"all\"/}{let $y}{call .off data=\"all\"/}{/let}%P\n{/template}\n/** @param x */\n{template .off autoescape=\"false\"}\n{if false}{$x}{/if}\n{/template}\n",
	"{namespace a%NS}\n/** @param x */\n{template .t%TM}\n{call .on data=\"all\"/}%P\n{/template}\n/** @param x */\n{template .on autoescape=\"true\"}\n{if false}{$x}{/if}\n{/template}\n",
}

const c03Callee = "{namespace b%NS}\n/** @param x */\n{template .u%TM}\n%P\n{/template}\n"

func c03Subst(s, ns, tm, p string) string {
	var out []byte
	for i := 0; i < len(s); i++ {
		if s[i] == '%' && i+2 < len(s) {
			switch s[i+1 : i+3] {
			case "NS":
				out = append(out, ns...)
				i += 2
				continue
			case "TM":
				out = append(out, tm...)
				i += 2
				continue
			}
		}
		if s[i] == '%' && i+1 < len(s) && s[i+1] == 'P' {
			out = append(out, p...)
			i++
			continue
		}
		out = append(out, s[i])
	}
	return string(out)
}

// c03Identity: a catalogue that translates every message of the bundle into itself (parts taken
// from the message's own placeholder string).
type c03Catalogue struct{ msgs map[uint64]*soymsg.Message }

func (b c03Catalogue) Locale() string                    { return "xx" }
func (b c03Catalogue) Message(id uint64) *soymsg.Message { return b.msgs[id] }
func (b c03Catalogue) PluralCase(n int) int              { return 0 }

func c03Identity(t *Tofu) soymsg.Bundle {
	b := c03Catalogue{map[uint64]*soymsg.Message{}}
	var walk func(n ast.Node)
	walk = func(n ast.Node) {
		if m, ok := n.(*ast.MsgNode); ok {
			b.msgs[m.ID] = soymsg.NewMessage(m.ID, soymsg.PlaceholderString(m))
		}
		if p, ok := n.(ast.ParentNode); ok {
			for _, c := range p.Children() {
				walk(c)
			}
		}
	}
	for _, tp := range t.registry.Templates {
		walk(tp.Node)
	}
	return b
}

// H_decision: the escape decision of evalPrint. ns/tm select the namespace-level and
// template-level autoescape attribute, dir the directive chain, ctx the syntactic context;
// $x is a symbolic string of 2 bytes (all byte values except NUL).
func H_decision(ns, tm, dir, ctx int) {
	d := c03Dirs[dir]
	p := "{$x" + d.text + "}"
	var tofu *Tofu
	entry := "a.t"
	if ctx == 7 || ctx == 8 {
		entry = "b.t"
	}
	if ctx >= 9 {
		tofu = verifMustCompileNoCheck(c03Subst(c03Ctx[ctx], c03Modes[ns], c03Modes[tm], p))
	} else if ctx == 8 {
		// the callee's file is added first
		tofu = verifMustCompile(c03Subst(c03Callee, c03Modes[ns], c03Modes[tm], p), c03Ctx[ctx])
	} else if ctx >= 4 {
		// cross-namespace call: the mode is the callee's own (template, else its namespace), whatever
		// the caller's template (ctx 4) or namespace (ctx 5, 6) says
		tofu = verifMustCompile(c03Ctx[ctx], c03Subst(c03Callee, c03Modes[ns], c03Modes[tm], p))
	} else {
		tofu = verifMustCompile(c03Subst(c03Ctx[ctx], c03Modes[ns], c03Modes[tm], p))
	}
	x := verifString(2)
	verifAssume(x[0] != 0 && x[1] != 0)
	var out string
	var err error
	if ctx == 9 {
		var buf bytes.Buffer
		err = tofu.NewRenderer(entry).WithMessages(c03Identity(tofu)).Execute(&buf, data.Map{"x": data.String(x)})
		out = buf.String()
		// the raw print of the value comes first
		verifAssert(err != nil || (len(out) >= 4 && out[0] == 'm' && out[1:3] == x && out[3] == '-'), "raw print inside a translated message does not write the value itself")
		if err == nil {
			out = "m" + out[4:]
		}
	} else {
		out, err = verifRender(tofu, entry, data.Map{"x": data.String(x)})
	}
	verifObserve("x", x)
	verifObserve("out", out)
	if err != nil {
		verifObserve("err", err.Error())
	}
	verifAssert(err == nil, "render failed")
	// effective mode: template attribute, else namespace attribute, else on
	eff := c03Modes[tm]
	if eff == "" {
		eff = c03Modes[ns]
	}
	off := eff == ` autoescape="false"`
	if ctx == 3 || ctx == 9 {
		verifAssert(len(out) >= 2 && out[0] == 'm' && out[len(out)-1] == 'm', "message text lost")
		out = out[1 : len(out)-1]
	}
	if d.raw || (off && !d.selfEscape) {
		verifAssert(out == x, "raw print does not write the value itself")
		return
	}
	if dir == 8 {
		out = stripWbr(out)
	}
	dec, ok := decodeEntities(out)
	verifAssert(ok, "raw special character reaches the output of an autoescaped print")
	// insertWordBreaks re-encodes the text rune by rune, so invalid UTF-8 becomes U+FFFD: not an
	// escaping matter; exact decoding is claimed for valid UTF-8 there.
	if dir != 8 || utf8.ValidString(x) {
		verifAssert(dec == x, "autoescaped output does not decode to the value")
	}
}

// H_nonString: non-string values print without specials either way; the value is a symbolic
// bool / small int / null / list / map and the mode is on.
func H_nonString(k int) {
	tofu := verifMustCompile("{namespace a}\n/** @param x */\n{template .t}\n{$x}\n{/template}\n")
	var v data.Value
	switch k {
	case 0:
		v = data.Bool(verifBool())
	case 1:
		i := verifInt()
		verifAssume(i >= -3 && i <= 3)
		v = data.Int(i)
	case 2:
		v = data.Null{}
	case 3:
		v = data.List{data.String(verifString(1)), data.Int(1)}
	case 4:
		v = data.Map{"k": data.String(verifString(1))}
	}
	out, err := verifRender(tofu, "a.t", data.Map{"x": v})
	verifObserve("out", out)
	verifAssert(err == nil, "render failed")
	dec, ok := decodeEntities(out)
	verifAssert(ok, "raw special character reaches the output of an autoescaped print")
	verifAssert(dec == v.String(), "autoescaped output does not decode to the printed value")
}

var c03EscapeDirTofu *Tofu

// H_escapeDir: the same through the explicit directive, {$x|escapeHtml}, in a template that
// autoescapes (via 0) and in one that does not (via 1): a value that already looks like escaped
// text ("&lt;", "&amp;amp;", "&#39;") is data like any other and decodes back to itself.
func H_escapeDir(n, via int) {
	s := verifString(n)
	for i := 0; i < len(s); i++ {
		verifAssume(s[i] != 0) // (the directive uses the standard library's escaper, which replaces NUL by U+FFFD)
	}
	if c03EscapeDirTofu == nil {
		c03EscapeDirTofu = verifMustCompile("{namespace e}\n/** @param x */\n{template .t0}\n{$x|escapeHtml}\n{/template}\n/** @param x */\n{template .t1 autoescape=\"false\"}\n{$x|escapeHtml}\n{/template}\n")
	}
	out, err := verifRender(c03EscapeDirTofu, []string{"e.t0", "e.t1"}[via], data.Map{"x": data.String(s)})
	verifObserve("in", s)
	verifObserve("out", out)
	verifAssert(err == nil, "render failed")
	dec, ok := decodeEntities(out)
	verifAssert(ok, "raw special character or malformed entity in escaped output")
	verifAssert(dec == s, "escaped output does not decode to the value")
}
