package soyhtml

import (
	"strconv"

	"github.com/robfig/soy/data"
)

// ---- program generator (mini AST chosen through verifChoose) ----

type pNode struct {
	kind int // 0 text 1 print 2 if 3 foreach 4 let value 5 let content 6 call 7 switch 8 for-range 9 special
	name string
	text string
	body []*pNode
	alt  []*pNode
	has  bool // has else / ifempty / param
	data int  // call: 0 none 1 all 2 $m
}

var c02Names = []string{"a", "b", "i"}

type c02Gen struct {
	budget  int
	lets    int
	spec    int
	profile int // 0: the whole command grammar; 1: content blocks only (text, print, let content, call with a content param)
}

var c02BlockKinds = []int{0, 1, 5, 11}

func (g *c02Gen) name() string { return c02Names[verifChoose(len(c02Names))] }

func (g *c02Gen) list(depth, max int) []*pNode {
	var out []*pNode
	for len(out) < max && g.budget > 0 && verifChoose(2) == 1 {
		out = append(out, g.node(depth))
	}
	return out
}

func (g *c02Gen) node(depth int) *pNode {
	g.budget--
	kinds := 11
	if depth == 0 {
		kinds = 2 // leaves only at the maximum depth
	}
	var k int
	if g.profile == 1 && depth > 0 {
		k = c02BlockKinds[verifChoose(len(c02BlockKinds))]
	} else {
		k = verifChoose(kinds)
	}
	switch k {
	case 0:
		if g.profile == 1 {
			g.spec++
			return &pNode{kind: 0, text: []string{"x", "y", "z", "w"}[g.spec%4]}
		}
		return &pNode{kind: 0, text: "x"}
	case 1:
		return &pNode{kind: 1, name: g.name()}
	case 2:
		n := &pNode{kind: 2, name: g.name(), body: g.list(depth-1, 2)}
		if verifChoose(2) == 1 {
			n.has, n.alt = true, g.list(depth-1, 1)
		}
		return n
	case 3:
		n := &pNode{kind: 3, body: g.list(depth-1, 2)}
		n.has = verifChoose(2) == 1
		return n
	case 4:
		g.lets++
		n := &pNode{kind: 4, name: c02Names[verifChoose(2)], text: strconv.Itoa(g.lets)}
		if verifChoose(2) == 1 {
			n.has, n.text = true, g.name() // value taken from a variable (possibly unbound: undefined)
		}
		return n
	case 5:
		return &pNode{kind: 5, name: c02Names[verifChoose(2)], body: g.list(depth-1, 2)}
	case 6:
		n := &pNode{kind: 6, data: verifChoose(3)}
		if verifChoose(2) == 1 {
			n.has, n.name = true, g.name()
			n.text = []string{"k", "a"}[verifChoose(2)] // the param may shadow a name the passed data binds
		}
		return n
	case 7:
		return &pNode{kind: 7, name: c02Names[verifChoose(2)], body: g.list(depth-1, 1)}
	case 8:
		return &pNode{kind: 8, body: g.list(depth-1, 2)}
	case 10:
		return &pNode{kind: 10, name: c02Names[verifChoose(2)], body: g.list(depth-1, 1)}
	case 11:
		return &pNode{kind: 11, data: verifChoose(2), body: g.list(depth-1, 3)}
	}
	g.spec++ // (variety without a further fork)
	return &pNode{kind: 9, text: []string{"{sp}", "{lb}", "{literal}{x}{/literal}", "{css c}", "{log}L{/log}", "{msg desc=\"d\"}m{/msg}", "{literal}\n {/literal}", "{nil}{\\t}"}[(g.spec+g.budget)%8]}
}

func c02Src(ns []*pNode) string {
	s := ""
	for _, n := range ns {
		switch n.kind {
		case 0:
			s += n.text
		case 1:
			s += "{$" + n.name + "}"
		case 2:
			s += "{if $" + n.name + "}" + c02Src(n.body)
			if n.has {
				s += "{else}" + c02Src(n.alt)
			}
			s += "{/if}"
		case 3:
			s += "{foreach $i in $l}" + c02Src(n.body) + "{$i}{if isLast($i)}.{/if}{if isFirst($i)}^{/if}{index($i)}"
			if n.has {
				s += "{ifempty}e"
			}
			s += "{/foreach}"
		case 4:
			if n.has {
				s += "{let $" + n.name + ": $" + n.text + " /}"
			} else {
				s += "{let $" + n.name + ": '" + n.text + "' /}"
			}
		case 5:
			s += "{let $" + n.name + "}" + c02Src(n.body) + "{/let}"
		case 6:
			s += "{call .u"
			switch n.data {
			case 1:
				s += " data=\"all\""
			case 2:
				s += " data=\"$m\""
			}
			if n.has {
				s += "}{param " + n.text + ": $" + n.name + " /}{/call}"
			} else {
				s += " /}"
			}
		case 7:
			s += "{switch $" + n.name + "}{case 'p', true}" + c02Src(n.body) + "{default}d{/switch}"
		case 8:
			s += "{for $i in range(2)}" + c02Src(n.body) + "{$i}{/for}"
		case 10:
			s += "{if $" + n.name + "}{if $b}{if $l}" + c02Src(n.body) + "{/if}{/if}{/if}"
		case 9:
			s += n.text
		case 11:
			s += "{call .u"
			if n.data == 1 {
				s += " data=\"all\""
			}
			s += "}{param k}" + c02Src(n.body) + "{/param}{/call}"
		}
	}
	return s
}

// ---- reference big-step semantics with block scoping and call isolation ----

type c02Env struct {
	frames []map[string]data.Value
	data   map[string]data.Value // the template's own data (what data="all" forwards)
	out    []byte
	failed bool
}

func (e *c02Env) lookup(k string) (data.Value, bool) {
	for i := len(e.frames) - 1; i >= 0; i-- {
		if v, ok := e.frames[i][k]; ok {
			return v, true
		}
	}
	v, ok := e.data[k]
	return v, ok
}

func (e *c02Env) push()                      { e.frames = append(e.frames, map[string]data.Value{}) }
func (e *c02Env) pop()                       { e.frames = e.frames[:len(e.frames)-1] }
func (e *c02Env) set(k string, v data.Value) { e.frames[len(e.frames)-1][k] = v }

func (e *c02Env) block(ns []*pNode) {
	e.push()
	e.run(ns)
	e.pop()
}

func (e *c02Env) print(k string) {
	v, ok := e.lookup(k)
	if _, undef := v.(data.Undefined); !ok || undef {
		e.failed = true // printing an unbound/undefined name has no value
		return
	}
	e.out = append(e.out, v.String()...)
}

func (e *c02Env) truthy(k string) bool {
	v, ok := e.lookup(k)
	return ok && refTruthy(v)
}

// callU appends what template .u renders on the callee's data:
// [{$a ?: 'n'}|{$b ?: 'n'}|{$k ?: 'n'}{let $a: 'L'/}{$a}<what .w prints for a, 'W', k>]
func (e *c02Env) callU(callee *c02Env) {
	callee.push()
	callee.out = append(callee.out, '[')
	for j, k := range []string{"a", "b", "k"} {
		v, ok := callee.lookup(k)
		_, isNull := v.(data.Null)
		_, isUndef := v.(data.Undefined)
		if !ok || isNull || isUndef {
			callee.out = append(callee.out, 'n')
		} else {
			callee.out = append(callee.out, v.String()...)
		}
		if j < 2 {
			callee.out = append(callee.out, '|')
		}
	}
	callee.out = append(callee.out, "L<"...)
	for _, k := range []string{"a", "b", "k"} {
		v, ok := callee.lookup(k)
		if k == "b" {
			v, ok = data.String("W"), true // the param of the second call
		}
		_, isNull := v.(data.Null)
		_, isUndef := v.(data.Undefined)
		if !ok || isNull || isUndef {
			callee.out = append(callee.out, 'n')
		} else {
			callee.out = append(callee.out, v.String()...)
		}
	}
	callee.out = append(callee.out, ">]"...)
	e.out = append(e.out, callee.out...)
}

func (e *c02Env) run(ns []*pNode) {
	for _, n := range ns {
		if e.failed {
			return
		}
		switch n.kind {
		case 0:
			e.out = append(e.out, n.text...)
		case 1:
			e.print(n.name)
		case 2:
			if e.truthy(n.name) {
				e.block(n.body)
			} else if n.has {
				e.block(n.alt)
			}
		case 3:
			lv, ok := e.lookup("l")
			l, isList := lv.(data.List)
			if !ok || !isList {
				e.failed = true
				return
			}
			if len(l) == 0 {
				if n.has {
					e.out = append(e.out, 'e')
				}
				break
			}
			for idx, item := range l {
				e.push()
				e.set("i", item)
				e.run(n.body)
				if e.failed {
					return
				}
				e.out = append(e.out, item.String()...)
				if idx == len(l)-1 {
					e.out = append(e.out, '.')
				}
				if idx == 0 {
					e.out = append(e.out, '^')
				}
				e.out = append(e.out, byte('0'+idx))
				e.pop()
			}
		case 4:
			if n.has {
				v, ok := e.lookup(n.text)
				if !ok {
					v = data.Undefined{}
				}
				e.set(n.name, v)
			} else {
				e.set(n.name, data.String(n.text))
			}
		case 5:
			saved := e.out
			e.out = nil
			e.block(n.body)
			content := e.out
			e.out = saved
			if e.failed {
				return
			}
			e.set(n.name, data.String(content))
		case 6:
			callee := &c02Env{data: map[string]data.Value{}}
			switch n.data {
			case 1:
				for k, v := range e.data {
					callee.data[k] = v
				}
			case 2:
				mv, ok := e.lookup("m")
				mm, isMap := mv.(data.Map)
				if !ok || !isMap {
					e.failed = true
					return
				}
				for k, v := range mm {
					callee.data[k] = v
				}
			}
			if n.has {
				v, ok := e.lookup(n.name)
				if !ok {
					v = data.Undefined{}
				}
				callee.data[n.text] = v
			}
			e.callU(callee)
		case 11:
			callee := &c02Env{data: map[string]data.Value{}}
			if n.data == 1 {
				for k, v := range e.data {
					callee.data[k] = v
				}
			}
			saved := e.out
			e.out = nil
			e.block(n.body)
			content := e.out
			e.out = saved
			if e.failed {
				return
			}
			callee.data["k"] = data.String(content)
			e.callU(callee)
		case 7:
			v, ok := e.lookup(n.name)
			if !ok {
				v = data.Undefined{}
			}
			if refEquals(v, data.String("p")) || refEquals(v, data.Bool(true)) {
				e.block(n.body)
			} else {
				e.out = append(e.out, 'd')
			}
		case 8:
			for idx := 0; idx < 2; idx++ {
				e.push()
				e.set("i", data.Int(idx))
				e.run(n.body)
				if e.failed {
					return
				}
				e.out = append(e.out, byte('0'+idx))
				e.pop()
			}
		case 10:
			lv, _ := e.lookup("l")
			if e.truthy(n.name) && e.truthy("b") && refTruthy(lv) {
				e.push()
				e.push()
				e.block(n.body)
				e.pop()
				e.pop()
			}
		case 9:
			switch n.text {
			case "{sp}":
				e.out = append(e.out, ' ')
			case "{lb}":
				e.out = append(e.out, '{')
			case "{literal}{x}{/literal}":
				e.out = append(e.out, "{x}"...)
			case "{css c}":
				e.out = append(e.out, 'c')
			case "{log}L{/log}":
			case "{msg desc=\"d\"}m{/msg}":
				e.out = append(e.out, 'm')
			case "{literal}\n {/literal}":
				e.out = append(e.out, "\n "...)
			case "{nil}{\\t}":
				e.out = append(e.out, '\t')
			}
		}
	}
}

// (.u calls on with data="all": the second level sees .u's data and params - a param shadowing a
// data key included - but not .u's lets)
const c02Callee = "/** @param? a\n @param? b\n @param? k */\n{template .u autoescape=\"false\"}\n[{$a ?: 'n'}|{$b ?: 'n'}|{$k ?: 'n'}{let $a: 'L'/}{$a}{call .w data=\"all\"}{param b: 'W' /}{/call}]\n{/template}\n" +
	"/** @param? a\n @param? b\n @param? k */\n{template .w autoescape=\"false\"}\n<{$a ?: 'n'}{$b ?: 'n'}{$k ?: 'n'}>\n{/template}\n"

// H_program: a template body of at most `budget` nodes and nesting depth `depth` chosen through
// the command grammar; data: a symbolic bool, b symbolic from {"p","q"}, l a list of length
// llen, m a map. The real parse+render must produce exactly what the reference semantics
// produces (same bytes, same error/no-error outcome).
func H_program(depth, budget, llen int) { c02Run(depth, budget, llen, 0) }

// H_programBlocks: the same with the generator restricted to content blocks (text, print, let
// content, call with a content param, nested in each other), which reaches deeper nestings of
// output redirection within the same budget.
func H_programBlocks(depth, budget int) { c02Run(depth, budget, 1, 1) }

func c02Run(depth, budget, llen, profile int) {
	g := &c02Gen{budget: budget, profile: profile}
	prog := g.list(depth, 3)
	// fixed trailer: the params are printed after the generated body, so that anything the body
	// leaks into the enclosing scope shows
	prog = append(prog, &pNode{kind: 0, text: "|"}, &pNode{kind: 1, name: "a"}, &pNode{kind: 1, name: "b"},
		&pNode{kind: 9, text: "{literal}\n {/literal}"}, &pNode{kind: 9, text: "{nil}{\\t}"}, &pNode{kind: 0, text: "."})
	src := "{namespace n}\n/** @param a\n @param b\n @param l\n @param m */\n{template .t autoescape=\"false\"}\n" + c02Src(prog) + "\n{/template}\n" + c02Callee
	verifObserve("body", c02Src(prog))
	tofu, cerr := verifCompileNoCheck(src)
	verifAssert(cerr == nil, "C02: generated program does not parse: "+c02Src(prog))
	a := data.Bool(verifBool())
	b := data.String("q")
	if verifBool() {
		b = "p"
	}
	l := data.List{data.Int(7), data.Int(8)}[:llen]
	m := data.Map{"a": data.String("M")}
	dm := data.Map{"a": a, "b": b, "l": l, "m": m}
	out, err := verifRender(tofu, "n.t", dm)
	verifObserve("out", out)
	ref := &c02Env{data: map[string]data.Value{"a": a, "b": b, "l": l, "m": m}}
	ref.push()
	ref.run(prog)
	if ref.failed {
		verifAssert(err != nil, "C02: a program that uses an unbound name rendered without error")
		return
	}
	verifAssert(err == nil, "C02: a well-defined program failed to render")
	verifAssert(out == string(ref.out), "C02: rendered output differs from the language semantics")
}

// H_forRange: {for}/{foreach} over range(...) with 1..3 integer arguments chosen through
// solver-visible choices in [-3,4]: the body runs for start, start+step, ... while below (step>0)
// or above (step<0) the limit; an empty range renders the ifempty block; step 0 is an error.
func H_forRange(argc int) {
	pick := func() int { return verifChoose(8) - 3 }
	start, limit, step := 0, pick(), 1
	args := strconv.Itoa(limit)
	if argc >= 2 {
		start = pick()
		args = strconv.Itoa(start) + ", " + strconv.Itoa(limit)
	}
	if argc >= 3 {
		step = pick()
		args += ", " + strconv.Itoa(step)
	}
	src := "{namespace n}\n/** */\n{template .t}\n{foreach $i in range(" + args + ")}{$i},{ifempty}none{/foreach}|{for $j in range(" + args + ")}{$j};{/for}\n{/template}\n"
	verifObserve("args", args)
	tofu, cerr := verifCompileNoCheck(src)
	verifAssert(cerr == nil, "C02: range loop does not parse")
	out, err := verifRender(tofu, "n.t", data.Map{})
	verifObserve("out", out)
	if step == 0 {
		verifAssert(err != nil, "C02: range with step 0 did not fail")
		return
	}
	verifAssert(err == nil, "C02: range loop failed")
	a, b := "", ""
	for i := start; (step > 0 && i < limit) || (step < 0 && i > limit); i += step {
		a += strconv.Itoa(i) + ","
		b += strconv.Itoa(i) + ";"
	}
	if a == "" {
		a = "none"
	}
	verifAssert(out == a+"|"+b, "C02: range loop does not run over start, start+step, ... up to the limit")
}

// H_callNames: how a {call} names its target: relative (.x), fully qualified, through an alias
// (last segment of the aliased namespace), into a sub-namespace of an aliased namespace, and a
// namespace whose name equals the alias-relative spelling; each callee prints its own tag and the
// param it is given (a symbolic byte).
func H_callNames(v int) {
	calls := []struct{ call, want string }{
		{"{call .loc}{param p: $x /}{/call}", "loc:"},
		{"{call a.b.c.t}{param p: $x /}{/call}", "abc:"},
		{"{call c.t}{param p: $x /}{/call}", "abc:"},
		{"{call c.d.t}{param p: $x /}{/call}", "abcd:"},
		{"{call a.b.c.d.t}{param p: $x /}{/call}", "abcd:"},
		{"{call e.t}{param p: $x /}{/call}", "xe:"},
		{"{call e.f.t}{param p: $x /}{/call}", "xef:"},
		{"{call q.r.t}{param p: $x /}{/call}", "qr:"},
	}
	lib := func(ns, tag string) string {
		return "{namespace " + ns + "}\n/** @param p */\n{template .t autoescape=\"false\"}\n" + tag + ":{$p}\n{/template}\n"
	}
	main := "{namespace m}\n{alias a.b.c}\n{alias x.e}\n/** @param x */\n{template .main autoescape=\"false\"}\n" + calls[v].call + "\n{/template}\n" +
		"/** @param p */\n{template .loc autoescape=\"false\"}\nloc:{$p}\n{/template}\n"
	// (a namespace literally named like an alias-relative spelling must not capture aliased calls)
	tofu := verifMustCompile(main, lib("a.b.c", "abc"), lib("a.b.c.d", "abcd"), lib("x.e", "xe"), lib("x.e.f", "xef"), lib("q.r", "qr"), lib("c.d", "cd"), lib("f", "f"))
	x := verifString(1)
	verifAssume(x[0] >= 'a' && x[0] <= 'z')
	out, err := verifRender(tofu, "m.main", data.Map{"x": data.String(x)})
	verifObserve("out", out)
	verifAssert(err == nil, "C02: call failed")
	verifAssert(out == calls[v].want+x, "C02: a call reached another template than the one it names")
}

// H_switchLit: {switch $a} over literal cases of every kind (int, string, float, bool, null,
// a multi-value case) with $a of kind ka (symbolic payload): the first case holding a value equal
// to $a in the language's sense (an integral float equals the int) is taken, else the default.
func H_switchLit(ka int) {
	m := data.Map{}
	a := c01Bind(m, "a", ka)
	tofu, cerr := verifCompileNoCheck("{namespace n}\n/** @param? a */\n{template .t autoescape=\"false\"}\n" +
		"{switch $a}{case 1}i{case 'p'}s{case 2.5}f{case true}t{case null}n{case 3, 'q', 4.0}m{default}d{/switch}|" +
		"{switch $a}{case 2}I{case ''}E{/switch}\n{/template}\n")
	verifAssert(cerr == nil, "C02: switch does not parse")
	out, err := verifRender(tofu, "n.t", m)
	verifObserve("out", out)
	if _, undef := a.(data.Undefined); undef {
		return // (switching on an undefined value: covered by H_program)
	}
	verifAssert(err == nil, "C02: switch failed to render")
	want := "d"
	cases := []struct {
		vals []data.Value
		tag  string
	}{{[]data.Value{data.Int(1)}, "i"}, {[]data.Value{data.String("p")}, "s"}, {[]data.Value{data.Float(2.5)}, "f"}, {[]data.Value{data.Bool(true)}, "t"},
		{[]data.Value{data.Null{}}, "n"}, {[]data.Value{data.Int(3), data.String("q"), data.Float(4.0)}, "m"}}
pick:
	for _, c := range cases {
		for _, v := range c.vals {
			if refEquals(a, v) {
				want = c.tag
				break pick
			}
		}
	}
	want += "|"
	if refEquals(a, data.Int(2)) {
		want += "I"
	} else if refEquals(a, data.String("")) {
		want += "E"
	}
	verifAssert(out == want, "C02: switch does not take the first case equal to the value")
}

var c02CssTofu *Tofu

// H_css: {css $b, suffix} writes the value of $b, a dash and the suffix for every value of $b -
// the empty string, 0 and false included -, {css suffix} writes the suffix alone.
func H_css(n, kind int) {
	if c02CssTofu == nil {
		c02CssTofu = verifMustCompile("{namespace c}\n/** @param b */\n{template .t}\n<i class=\"{css $b, title}\">{css row}</i>\n{/template}\n")
	}
	var b data.Value
	var want string
	switch kind {
	case 0:
		s := verifString(n)
		b, want = data.String(s), s
	case 1:
		b, want = data.Int(int64(n)), []string{"0", "1", "2"}[n]
	case 2:
		b, want = data.Bool(n == 1), []string{"false", "true", "false"}[n]
	}
	out, err := verifRender(c02CssTofu, "c.t", data.Map{"b": b})
	verifObserve("out", out)
	verifAssert(err == nil, "harness: render failed")
	verifAssert(out == "<i class=\""+want+"-title\">row</i>", "C02: {css $base, suffix} does not write base, dash and suffix")
}
