package soyhtml

import (
	"bytes"

	"github.com/robfig/soy/data"
)

// faultWriter injects write failures. mode 0: fails (and keeps failing) from the Write call on
// which a fresh symbolic boolean is true; mode 1: the same, and the failing call accepts a
// symbolic number m < len(p) of its bytes (short write); mode 2: a writer with a symbolic
// capacity c: a write that does not fit accepts what fits and fails, later writes fail unless
// they are empty (a full disk or a closed pipe accepts an empty write); mode 3: transient: exactly
// one symbolically chosen call fails, the writer works again afterwards.
type faultWriter struct {
	buf       []byte
	failed    bool
	atFailure int // len(buf) when the first failure happened
	short     bool
	mode      int
	capacity  int
	calls     int
}

func (w *faultWriter) fail(accepted []byte) (int, error) {
	if !w.failed {
		w.failed = true
		w.buf = append(w.buf, accepted...)
		w.atFailure = len(w.buf)
		return len(accepted), errVerifWrite
	}
	return 0, errVerifWrite
}

func (w *faultWriter) Write(p []byte) (int, error) {
	w.calls++
	switch w.mode {
	case 2:
		if len(w.buf)+len(p) <= w.capacity && !(w.failed && len(p) > 0) {
			w.buf = append(w.buf, p...)
			return len(p), nil
		}
		room := w.capacity - len(w.buf)
		if room < 0 || w.failed {
			room = 0
		}
		return w.fail(p[:room])
	case 3:
		if !w.failed && verifBool() {
			return w.fail(nil)
		}
		w.buf = append(w.buf, p...)
		return len(p), nil
	}
	if w.failed {
		return 0, errVerifWrite
	}
	if verifBool() {
		if (w.short || w.mode == 1) && len(p) > 0 {
			return w.fail(p[:verifChoose(len(p))])
		}
		return w.fail(nil)
	}
	w.buf = append(w.buf, p...)
	return len(p), nil
}

// templates exercising every write site of the tree walker
var c12Templates = []string{
	// 0: raw text, escaped print, unescaped print, escaped print last
	"{namespace a}\n/** @param x */\n{template .t}\nhello {$x} and {$x|noAutoescape}!{$x}\n{/template}\n",
	// 1: css, literal, special chars, if/else
	"{namespace a}\n/** @param x */\n{template .t}\n{css foo}{sp}{literal}<{x}>{/literal}{if $x}{lb}{$x|escapeUri}{else}no{/if}{css $x, bar}\n{/template}\n",
	// 2: msg with html tag and placeholder
	"{namespace a}\n/** @param x */\n{template .t}\n{msg desc=\"d\"}Hi <b>{$x}</b> there{/msg}{$x}\n{/template}\n",
	// 3: let content, param content, call, log
	"{namespace a}\n/** @param x */\n{template .t}\n{let $y}[{$x}]{/let}{$y}{call .u}{param c}<{$x}>{/param}{/call}{log}L{$x}{/log}\n{/template}\n/** @param c */\n{template .u}\n({$c|noAutoescape}){$c}\n{/template}\n",
	// 4: foreach with writes, nested call with data=all, switch
	"{namespace a}\n/** @param x */\n{template .t}\n{foreach $i in [1,2]}{$i}{$x}{ifempty}none{/foreach}{call .u data=\"all\"/}{switch $x}{case '<'}lt{default}other{/switch}\n{/template}\n/** @param x */\n{template .u}\n{$x}{$x|id}\n{/template}\n",
	// 5: a single escaped print with specials (several writes inside the escaper)
	"{namespace a}\n/** @param x */\n{template .t}\n{$x}\n{/template}\n",
}

var c12Data = []string{"<", "a<b>&c", "", "\"'"}

// H_fault: every failure point of every write, for template t and data d, under writer mode
// (see faultWriter).
func H_fault(t, d, mode int) {
	tofu := verifMustCompile(c12Templates[t])
	m := data.Map{"x": data.String(c12Data[d])}
	var ref bytes.Buffer
	verifAssert(tofu.NewRenderer("a.t").Execute(&ref, m) == nil, "fault-free render failed")
	want := ref.String()
	w := &faultWriter{mode: mode}
	if mode == 2 {
		w.capacity = verifChoose(len(want) + 1)
	}
	err := tofu.NewRenderer("a.t").Execute(w, m)
	got := string(w.buf)
	verifObserve("accepted", got)
	verifObserveInt("writes", w.calls)
	if w.failed {
		verifAssert(err != nil, "a failed write did not surface as a render error")
		before := got[:w.atFailure]
		verifAssert(len(before) <= len(want) && want[:len(before)] == before, "bytes accepted before the failure are not a prefix of the fault-free output")
	}
	if err == nil {
		verifAssert(got == want, "render returned nil but the writer did not accept the whole output")
	}
	if mode != 3 {
		verifAssert(len(got) <= len(want) && want[:len(got)] == got, "accepted bytes are not a prefix of the fault-free output")
	}
}
