package soyhtml

import (
	"bytes"

	"github.com/robfig/soy/ast"
	"github.com/robfig/soy/data"
	"github.com/robfig/soy/soymsg"
)

// verifTempError: an error of the kind net.Error describes (a deadline that passed, EAGAIN): a
// failed write all the same.
type verifTempError struct{}

func (verifTempError) Error() string   { return "verif: injected transient write failure" }
func (verifTempError) Temporary() bool { return true }
func (verifTempError) Timeout() bool   { return true }

var errVerifTemporary error = verifTempError{}

// faultWriter injects write failures. mode 0: fails (and keeps failing) from the Write call on
// which a fresh symbolic boolean is true; mode 1: the same, and the failing call accepts a
// symbolic number m < len(p) of its bytes (short write); mode 2: a writer with a symbolic
// capacity c: a write that does not fit accepts what fits and fails, later writes fail unless
// they are empty (a full disk or a closed pipe accepts an empty write); mode 3: transient: exactly
// one symbolically chosen call fails, the writer works again afterwards; mode 4: the same, and the
// failure is reported as a Temporary/Timeout error.
type faultWriter struct {
	buf       []byte
	failed    bool
	atFailure int // len(buf) when the first failure happened
	short     bool
	mode      int
	capacity  int
	calls     int
	flushes   int
}

// Flush: the writer is also a flusher (as a bufio.Writer or an http.ResponseWriter wrapper is) whose
// Flush has nothing left to do and succeeds: a failed write stays a failed render.
func (w *faultWriter) Flush() error {
	w.flushes++
	return nil
}

func (w *faultWriter) fail(accepted []byte) (int, error) {
	if !w.failed {
		w.failed = true
		w.buf = append(w.buf, accepted...)
		w.atFailure = len(w.buf)
		return len(accepted), errVerifWrite
	}
	return 0, errVerifWrite
}

func (w *faultWriter) Write(p []byte) (int, error) {
	w.calls++
	switch w.mode {
	case 2:
		if len(w.buf)+len(p) <= w.capacity && !(w.failed && len(p) > 0) {
			w.buf = append(w.buf, p...)
			return len(p), nil
		}
		room := w.capacity - len(w.buf)
		if room < 0 || w.failed {
			room = 0
		}
		return w.fail(p[:room])
	case 3, 4:
		if !w.failed && verifBool() {
			n, err := w.fail(nil)
			if w.mode == 4 {
				err = errVerifTemporary // what a socket reports on a timeout: Temporary() and Timeout() are true
			}
			return n, err
		}
		w.buf = append(w.buf, p...)
		return len(p), nil
	}
	if w.failed {
		return 0, errVerifWrite
	}
	if verifBool() {
		if (w.short || w.mode == 1) && len(p) > 0 {
			return w.fail(p[:verifChoose(len(p))])
		}
		return w.fail(nil)
	}
	w.buf = append(w.buf, p...)
	return len(p), nil
}

// templates exercising every write site of the tree walker
var c12Templates = []string{
	// 0: raw text, escaped print, unescaped print, escaped print last
	"{namespace a}\n/** @param x */\n{template .t}\nhello {$x} and {$x|noAutoescape}!{$x}\n{/template}\n",
	// 1: css, literal, special chars, if/else
	"{namespace a}\n/** @param x */\n{template .t}\n{css foo}{sp}{literal}<{x}>{/literal}{if $x}{lb}{$x|escapeUri}{else}no{/if}{css $x, bar}\n{/template}\n",
	// 2: msg with html tag and placeholder
	"{namespace a}\n/** @param x */\n{template .t}\n{msg desc=\"d\"}Hi <b>{$x}</b> there{/msg}{$x}\n{/template}\n",
	// 3: let content, param content, call, log
	"{namespace a}\n/** @param x */\n{template .t}\n{let $y}[{$x}]{/let}{$y}{call .u}{param c}<{$x}>{/param}{/call}{log}L{$x}{/log}\n{/template}\n/** @param c */\n{template .u}\n({$c|noAutoescape}){$c}\n{/template}\n",
	// 4: foreach with writes, nested call with data=all, switch
	"{namespace a}\n/** @param x */\n{template .t}\n{foreach $i in [1,2]}{$i}{$x}{ifempty}none{/foreach}{call .u data=\"all\"/}{switch $x}{case '<'}lt{default}other{/switch}\n{/template}\n/** @param x */\n{template .u}\n{$x}{$x|id}\n{/template}\n",
	// 5: a single escaped print with specials (several writes inside the escaper)
	"{namespace a}\n/** @param x */\n{template .t}\n{$x}\n{/template}\n",
	// 6: a loop over a longer list as the last output, and a longer for-range before it
	"{namespace a}\n/** @param x */\n{template .t}\n{for $j in range(9)}{$j}{/for}{$x}{foreach $i in [1, 2, 3, 4, 5, 6, 7, 8, 9, 10]}{$i},{/foreach}\n{/template}\n",
	// 7: a plural message as the last output (its cases end in text)
	"{namespace a}\n/** @param x\n @param n */\n{template .t}\n{$x}{msg desc=\"d\"}{plural $n}{case 0}none{case 1}one {$x} item{default}{$n} items of <i>{$x}</i> here{/plural}{/msg}\n{/template}\n",
	// 8: a plural message followed by further output
	"{namespace a}\n/** @param x\n @param n */\n{template .t}\n{msg desc=\"d\"}{plural $n}{case 1}one{default}{$x} many{/plural}{/msg}{$x}\n{/template}\n",
	// 9: a template that is nothing but static text (and one reached through a call)
	"{namespace a}\n/** */\n{template .t}\n<footer>static text only</footer>\n{/template}\n",
	"{namespace a}\n/** */\n{template .t}\n{call .s /}\n{/template}\n/** */\n{template .s}\nstatic callee\n{/template}\n",
	// 11: an empty template and a template whose only output is an empty print
	"{namespace a}\n/** @param x */\n{template .t}\n{if $x == 'never'}y{/if}\n{/template}\n",
	// 12: a template that calls itself (output before, inside and after the recursion)
	"{namespace a}\n/** @param x\n @param? n */\n{template .t}\n[{$x}{if not $n}{call .t data=\"all\"}{param n: 1 /}{/call}{elseif $n == 1}{call .t}{param x: $x /}{param n: 2 /}{/call}{/if}]\n{/template}\n",
	// 13: prints whose last directive is each of the encoding directives, as the last output
	"{namespace a}\n/** @param x */\n{template .t}\n{$x|escapeUri}{$x|truncate:3}{$x|changeNewlineToBr}{$x|insertWordBreaks:2}{$x|json}{$x|truncate:3|escapeJsString}{$x|escapeJsString}\n{/template}\n",
	"{namespace a}\n/** @param x */\n{template .t}\n{$x|escapeJsString}{$x|json}{$x|escapeUri}\n{/template}\n",
}

// c12Bundle: a catalogue translating the message of template 2 (text and placeholder parts are
// written by evalMsgParts).
type c12Bundle struct {
	id     uint64
	plural string // name of the plural variable when the message is a plural (templates 7, 8)
}

func (b c12Bundle) Locale() string { return "xx" }
func (b c12Bundle) Message(id uint64) *soymsg.Message {
	if id != b.id {
		return nil
	}
	if b.plural != "" {
		return &soymsg.Message{ID: id, Parts: []soymsg.Part{soymsg.PluralPart{VarName: b.plural, Cases: []soymsg.PluralCase{
			{Spec: soymsg.PluralSpec{Type: soymsg.PluralSpecOne}, Parts: []soymsg.Part{soymsg.RawTextPart{Text: "un "}, soymsg.PlaceholderPart{Name: "X"}, soymsg.RawTextPart{Text: " seul"}}},
			{Spec: soymsg.PluralSpec{Type: soymsg.PluralSpecOther}, Parts: []soymsg.Part{soymsg.RawTextPart{Text: "des "}, soymsg.PlaceholderPart{Name: "X"}, soymsg.RawTextPart{Text: " en nombre"}}},
		}}}}
	}
	return &soymsg.Message{ID: id, Parts: []soymsg.Part{soymsg.RawTextPart{Text: "Salut "}, soymsg.PlaceholderPart{Name: "START_BOLD"},
		soymsg.PlaceholderPart{Name: "X"}, soymsg.PlaceholderPart{Name: "END_BOLD"}, soymsg.RawTextPart{Text: " la"}}}
}
func (b c12Bundle) PluralCase(n int) int {
	if n == 1 || b.plural == "" {
		return 0
	}
	return 1
}

func c12MsgID(t *Tofu) (uint64, string) {
	var id uint64
	var plural string
	var walk func(n ast.Node)
	walk = func(n ast.Node) {
		if m, ok := n.(*ast.MsgNode); ok {
			id = m.ID
		}
		if pl, ok := n.(*ast.MsgPluralNode); ok {
			plural = pl.VarName
		}
		if p, ok := n.(ast.ParentNode); ok {
			for _, c := range p.Children() {
				walk(c)
			}
		}
	}
	for _, tp := range t.registry.Templates {
		walk(tp.Node)
	}
	return id, plural
}

var c12Data = []string{"<", "a<b>&c", "", "\"'", "&"}

// H_fault: every failure point of every write, for template t and data d, under writer mode
// (see faultWriter).
func H_fault(t, d, mode int) {
	tofu := verifMustCompile(c12Templates[t])
	m := data.Map{"x": data.String(c12Data[d]), "n": data.Int(len(c12Data[d]))}
	var ref bytes.Buffer
	rend := func() *Renderer {
		r := tofu.NewRenderer("a.t")
		if (t == 2 && d >= 2) || (t >= 7 && d != 2 && d != 4) {
			id, plural := c12MsgID(tofu)
			r = r.WithMessages(c12Bundle{id, plural}) // translated message: parts written by evalMsgParts
		}
		return r
	}
	verifAssert(rend().Execute(&ref, m) == nil, "fault-free render failed")
	want := ref.String()
	w := &faultWriter{mode: mode}
	if mode == 2 {
		w.capacity = verifChoose(len(want) + 1)
	}
	err := rend().Execute(w, m)
	got := string(w.buf)
	verifObserve("accepted", got)
	verifObserveInt("writes", w.calls)
	if w.failed {
		verifAssert(err != nil, "a failed write did not surface as a render error")
		before := got[:w.atFailure]
		verifAssert(len(before) <= len(want) && want[:len(before)] == before, "bytes accepted before the failure are not a prefix of the fault-free output")
	}
	if err == nil {
		verifAssert(got == want, "render returned nil but the writer did not accept the whole output")
	}
	if mode != 3 && mode != 4 {
		verifAssert(len(got) <= len(want) && want[:len(got)] == got, "accepted bytes are not a prefix of the fault-free output")
	}
}
