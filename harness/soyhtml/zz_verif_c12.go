package soyhtml

import (
	"bytes"

	"github.com/robfig/soy/data"
)

// faultWriter fails (and keeps failing) from the Write call on which a fresh symbolic boolean
// is true; in short mode it accepts only a symbolic number m < len(p) of the bytes of that call.
type faultWriter struct {
	buf    []byte
	failed bool
	short  bool
	calls  int
}

func (w *faultWriter) Write(p []byte) (int, error) {
	w.calls++
	if w.failed {
		return 0, errVerifWrite
	}
	if verifBool() {
		w.failed = true
		if w.short && len(p) > 0 {
			m := verifChoose(len(p))
			w.buf = append(w.buf, p[:m]...)
			return m, errVerifWrite
		}
		return 0, errVerifWrite
	}
	w.buf = append(w.buf, p...)
	return len(p), nil
}

// templates exercising every write site of the tree walker
var c12Templates = []string{
	// 0: raw text, escaped print, unescaped print, escaped print last
	"{namespace a}\n/** @param x */\n{template .t}\nhello {$x} and {$x|noAutoescape}!{$x}\n{/template}\n",
	// 1: css, literal, special chars, if/else
	"{namespace a}\n/** @param x */\n{template .t}\n{css foo}{sp}{literal}<{x}>{/literal}{if $x}{lb}{$x|escapeUri}{else}no{/if}{css $x, bar}\n{/template}\n",
	// 2: msg with html tag and placeholder
	"{namespace a}\n/** @param x */\n{template .t}\n{msg desc=\"d\"}Hi <b>{$x}</b> there{/msg}{$x}\n{/template}\n",
	// 3: let content, param content, call, log
	"{namespace a}\n/** @param x */\n{template .t}\n{let $y}[{$x}]{/let}{$y}{call .u}{param c}<{$x}>{/param}{/call}{log}L{$x}{/log}\n{/template}\n/** @param c */\n{template .u}\n({$c|noAutoescape}){$c}\n{/template}\n",
	// 4: foreach with writes, nested call with data=all, switch
	"{namespace a}\n/** @param x */\n{template .t}\n{foreach $i in [1,2]}{$i}{$x}{ifempty}none{/foreach}{call .u data=\"all\"/}{switch $x}{case '<'}lt{default}other{/switch}\n{/template}\n/** @param x */\n{template .u}\n{$x}{$x|id}\n{/template}\n",
	// 5: a single escaped print with specials (several writes inside the escaper)
	"{namespace a}\n/** @param x */\n{template .t}\n{$x}\n{/template}\n",
}

var c12Data = []string{"<", "a<b>&c", "", "\"'"}

// H_fault: every failure index of every write, for template t and data d; short selects
// short-write injection (a prefix of the failing call is accepted).
func H_fault(t, d int, short bool) {
	tofu := verifMustCompile(c12Templates[t])
	m := data.Map{"x": data.String(c12Data[d])}
	var ref bytes.Buffer
	verifAssert(tofu.NewRenderer("a.t").Execute(&ref, m) == nil, "fault-free render failed")
	want := ref.String()
	w := &faultWriter{short: short}
	err := tofu.NewRenderer("a.t").Execute(w, m)
	got := string(w.buf)
	verifObserve("accepted", got)
	verifObserveInt("writes", w.calls)
	if w.failed {
		verifAssert(err != nil, "a failed write did not surface as a render error")
	}
	if err == nil {
		verifAssert(got == want, "render returned nil but the writer did not accept the whole output")
	}
	verifAssert(len(got) <= len(want) && want[:len(got)] == got, "accepted bytes are not a prefix of the fault-free output")
}
