package soyhtml

import (
	"bytes"
	"errors"

	"github.com/robfig/soy/data"
	"github.com/robfig/soy/parse"
	"github.com/robfig/soy/parsepasses"
	"github.com/robfig/soy/template"
)

// verifCompile mirrors soy.Bundle.Compile for in-memory sources (parse, register, check data refs,
// assign message ids); the file-system and watcher parts of Bundle are not involved.
func verifCompile(srcs ...string) (*Tofu, error) {
	reg := template.Registry{}
	for i, src := range srcs {
		f, err := parse.SoyFile("f"+string(rune('0'+i))+".soy", src)
		if err != nil {
			return nil, err
		}
		if err := reg.Add(f); err != nil {
			return nil, err
		}
	}
	if err := parsepasses.CheckDataRefs(reg); err != nil {
		return nil, err
	}
	parsepasses.ProcessMessages(reg)
	return NewTofu(&reg), nil
}

// verifCompileNoCheck: like verifCompile without the data reference check (for programs that
// must fail at render time).
func verifCompileNoCheck(srcs ...string) (*Tofu, error) {
	reg := template.Registry{}
	for i, src := range srcs {
		f, err := parse.SoyFile("f"+string(rune('0'+i))+".soy", src)
		if err != nil {
			return nil, err
		}
		if err := reg.Add(f); err != nil {
			return nil, err
		}
	}
	parsepasses.ProcessMessages(reg)
	return NewTofu(&reg), nil
}

func verifMustCompile(srcs ...string) *Tofu {
	t, err := verifCompile(srcs...)
	if err != nil {
		verifAssert(false, "harness template does not compile: "+err.Error())
	}
	return t
}

func verifRender(t *Tofu, name string, m data.Map) (string, error) {
	var buf bytes.Buffer
	err := t.NewRenderer(name).Execute(&buf, m)
	return buf.String(), err
}

// decodeEntities is the reference decoder of the five character references the escaper may
// emit; ok=false when a raw special character or any other '&' sequence appears.
func decodeEntities(s string) (string, bool) {
	var out []byte
	for i := 0; i < len(s); {
		c := s[i]
		if c == '<' || c == '>' || c == '"' || c == '\'' {
			return "", false
		}
		if c != '&' {
			out = append(out, c)
			i++
			continue
		}
		switch {
		case len(s)-i >= 5 && s[i:i+5] == "&amp;":
			out = append(out, '&')
			i += 5
		case len(s)-i >= 4 && s[i:i+4] == "&lt;":
			out = append(out, '<')
			i += 4
		case len(s)-i >= 4 && s[i:i+4] == "&gt;":
			out = append(out, '>')
			i += 4
		case len(s)-i >= 5 && s[i:i+5] == "&#34;":
			out = append(out, '"')
			i += 5
		case len(s)-i >= 5 && s[i:i+5] == "&#39;":
			out = append(out, '\'')
			i += 5
		default:
			return "", false
		}
	}
	return string(out), true
}

var errVerifWrite = errors.New("verif: injected write failure")

func verifMustCompileNoCheck(srcs ...string) *Tofu {
	t, err := verifCompileNoCheck(srcs...)
	if err != nil {
		verifAssert(false, "harness template does not compile: "+err.Error())
	}
	return t
}
