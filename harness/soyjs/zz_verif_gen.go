package soyjs

import (
	"bytes"
	"strconv"

	"github.com/robfig/soy/ast"
	"github.com/robfig/soy/data"
	"github.com/robfig/soy/parse"
	"github.com/robfig/soy/parsepasses"
	"github.com/robfig/soy/template"
)

func jsCompile(globals data.Map, srcs ...string) (*template.Registry, error) {
	reg := template.Registry{}
	for i, src := range srcs {
		f, err := parse.SoyFile("f"+strconv.Itoa(i)+".soy", src)
		if err != nil {
			return nil, err
		}
		if err := reg.Add(f); err != nil {
			return nil, err
		}
	}
	if err := parsepasses.CheckDataRefs(reg); err != nil {
		return nil, err
	}
	if err := parsepasses.SetGlobals(reg, globals); err != nil {
		return nil, err
	}
	parsepasses.ProcessMessages(reg)
	return &reg, nil
}

func jsMust(globals data.Map, srcs ...string) *template.Registry {
	r, err := jsCompile(globals, srcs...)
	if err != nil {
		verifAssert(false, "harness template does not compile: "+err.Error())
	}
	return r
}

func jsWrite(f *ast.SoyFileNode, es6 bool) (string, error) {
	var buf bytes.Buffer
	opt := Options{}
	if es6 {
		opt.Formatter = &ES6Formatter{}
	}
	err := Write(&buf, f, opt)
	return buf.String(), err
}

var jsFiles = [][]string{
	// 0: several calls, a directive and a function -> 5 ES6 imports
	{"{namespace a.b}\n/** @param x */\n{template .t}\n{call .u data=\"all\"/}{call c.v}{param p: $x/}{/call}{call c.w/}{call c.y/}{$x|truncate:3}{round($x)}{$x|id|escapeUri}{$x|noAutoescape|truncate:2}{$x|escapeHtml|id}{$x|id}\n{/template}\n" +
		"/** @param x */\n{template .u}\n{$x}\n{/template}\n",
		"{namespace c}\n/** @param? p */\n{template .v}\n{$p}\n{/template}\n/** */\n{template .w}\nw\n{/template}\n/** */\n{template .y}\ny\n{/template}\n"},
	// 1: map literals and global maps/lists
	{"{namespace a}\n/** @param x\n @param l */\n{template .t}\n{let $m: ['z': 1, 'y': $x, 'x': [1, 2], 'w': 'q'] /}{$m}{keys(['b': 1, 'a': 2])}{G_MAP}{G_STR}{$m['404']}{$m['1st']}{$m['ok_key']}{$m['a-b']}{$x.0}{$x?.k[0]}{$x['k']?.z}{foreach $i in $l}{$i}{index($i)}{/foreach}\n{/template}\n"},
	// 2: messages, incl. colliding placeholder base names
	{"{namespace a}\n/** @param x\n @param y\n @param y_1 */\n{template .t}\n{msg desc=\"d\"}Hello <b>{$x}</b> {$x.y}{$y.y}{$y_1}{/msg}{msg desc=\"e\"}{plural $x}{case 1}one{default}{$x} many{/plural}{/msg}\n{/template}\n"},
	// 3: namespaces whose later segments repeat (or are substrings of) earlier parts of the name
	{"{namespace app.pages.page}\n/** */\n{template .t}\nx{call shop.cart.shop.u/}\n{/template}\n",
		"{namespace shop.cart.shop}\n/** */\n{template .u}\nu{call com.example.x.com.v/}\n{/template}\n",
		"{namespace com.example.x.com}\n/** */\n{template .v}\nv\n{/template}\n",
		"{namespace aa.a.aaa.a}\n/** */\n{template .w}\nw\n{/template}\n"},
	// 4: calls to templates whose names differ in letter case only, directives and functions -> imports
	{"{namespace a}\n/** @param x */\n{template .t}\n{call ui.w.button data=\"all\"/}{call ui.w.Button data=\"all\"/}{call ui.W.button data=\"all\"/}{call ui.w.BUTTON data=\"all\"/}{$x|truncate:3}{$x|escapeUri}\n{/template}\n",
		"{namespace ui.w}\n/** @param x */\n{template .button}\nb{$x}\n{/template}\n/** @param x */\n{template .Button}\nB{$x}\n{/template}\n/** @param x */\n{template .BUTTON}\nBB{$x}\n{/template}\n",
		"{namespace ui.W}\n/** @param x */\n{template .button}\nWb{$x}\n{/template}\n"},
	// 5: control flow with empty branches and bodies
	{"{namespace a}\n/** @param x\n @param y\n @param l */\n{template .t}\n{if $x}{else}e{/if}{if $x}{elseif $y}b{/if}{if $x}a{elseif $y}{else}c{/if}{if $x}{/if}" +
		"{switch $x}{case 1}{case 2}two{default}{/switch}{foreach $i in $l}{ifempty}none{/foreach}{foreach $i in $l}{$i}{ifempty}{/foreach}{let $z}{/let}{$z}{call .u}{param p}{/param}{/call}{msg desc=\"d\"}{/msg}\n{/template}\n/** @param? p */\n{template .u}\n{if $p}{/if}\n{/template}\n"},
}

var jsGlobals = data.Map{"G_MAP": data.Map{"k2": data.Int(2), "k1": data.String("v"), "k3": data.List{data.Int(1)}}, "G_STR": data.String("s")}

// H_jsPure (C09): two generations of every file from one frozen registry, both formatters:
// the generator writes nothing that is shared and produces identical bytes.
func H_jsPure(t int, es6 bool) {
	reg := jsMust(jsGlobals, jsFiles[t]...)
	before, beforeG := verifDeepDigest(reg), verifGlobalsDigest()
	verifFreeze("compiled registry", reg)
	verifFreezeGlobals()
	for _, f := range reg.SoyFiles {
		o1, e1 := jsWrite(f, es6)
		o2, e2 := jsWrite(f, es6)
		verifAssert(e1 == nil && e2 == nil, "js generation failed")
		verifAssert(o1 == o2, "C13: two generations of the same file differ")
	}
	verifUnfreeze()
	verifAssert(before == verifDeepDigest(reg), "native: the registry changed during js generation")
	if verifConfirmingFrozen() {
		verifAssert(beforeG == verifGlobalsDigest(), "native: a package-level variable changed during js generation")
	}
}

// files the JavaScript backend rejects part-way through (after some output was produced)
var jsFailing = []string{
	"{namespace f}\n/** @param x */\n{template .t}\nsome text {$x} more{if $x}{$x|notAJsDirective}{/if}\n{/template}\n",
	"{namespace f}\n/** @param x */\n{template .t}\n{call .u data=\"all\"/}text{notAJsFunction($x)}\n{/template}\n/** @param x */\n{template .u}\n{$x}\n{/template}\n",
	"{namespace f}\n/** @param x */\n{template .t}\n{msg desc=\"d\"}Hi {$x}{/msg}{let $y: notAJsFunction(1) /}{$y}\n{/template}\n",
}

// H_jsAfterFailure (C13): the JavaScript of a file is the same before and after a generation of
// another file that failed part-way (k indexes jsFailing): nothing of an aborted generation
// survives into the next.
func H_jsAfterFailure(t, k int, es6 bool) {
	reg := jsMust(jsGlobals, jsFiles[t]...)
	bad := template.Registry{}
	bf, perr := parse.SoyFile("bad.soy", jsFailing[k])
	verifAssert(perr == nil && bad.Add(bf) == nil, "harness template does not parse")
	for _, f := range reg.SoyFiles {
		want, e1 := jsWrite(f, es6)
		_, eb := jsWrite(bf, es6)
		verifAssert(eb != nil, "harness: the failing file was accepted by the JavaScript backend")
		got, e2 := jsWrite(f, es6)
		verifAssert(e1 == nil && e2 == nil, "js generation failed")
		verifObserve("js", got)
		verifAssert(got == want, "C13: generated JavaScript differs after an earlier generation that failed")
	}
}

var jsOrderSites = []string{"func:difference#0", "func:walk#0", "func:nodeFromValue#0", "func:setPlaceholderNames#0"}

// H_jsOrder (C13): generated JavaScript is the same under an arbitrary iteration order of one
// map loop at a time (site indexes jsOrderSites; -1 = reference order).
func H_jsOrder(t, site int, es6 bool) {
	ref := jsMust(jsGlobals, jsFiles[t]...)
	var wants []string
	for _, f := range ref.SoyFiles {
		w, e := jsWrite(f, es6)
		verifAssert(e == nil, "js generation failed")
		wants = append(wants, w)
	}
	if site >= 0 {
		verifMapOrder(jsOrderSites[site])
	}
	reg := jsMust(jsGlobals, jsFiles[t]...)
	for i, f := range reg.SoyFiles {
		got, e := jsWrite(f, es6)
		verifAssert(e == nil, "js generation failed")
		if site < 0 {
			verifObserve("js", got)
		}
		verifAssert(got == wants[i], "generated JavaScript depends on map iteration order ("+jsSite(site)+")")
	}
	verifMapOrder("")
}

func jsSite(site int) string {
	if site < 0 {
		return "none"
	}
	return jsOrderSites[site]
}
