package soyjs

import (
	"bytes"

	"github.com/robfig/soy/ast"
	"github.com/robfig/soy/parse"
)

// jsPrintExpr returns the JavaScript expression emitted for the print command {$x<dirs>} under the
// given autoescape mode (the text between "output += " and ";\n").
func jsPrintExpr(dirs string, auto bool) string {
	f, err := parse.SoyFile("p.soy", "{namespace n}\n/** @param x */\n{template .t}\n{$x"+dirs+"}\n{/template}\n")
	if err != nil {
		verifAssert(false, "harness: print command does not parse: "+err.Error())
	}
	var pn *ast.PrintNode
	for _, n := range f.Body {
		if t, ok := n.(*ast.TemplateNode); ok {
			pn = t.Body.Nodes[0].(*ast.PrintNode)
		}
	}
	var buf bytes.Buffer
	s := &state{wr: &buf, bufferName: "output", options: Options{Formatter: &ES5Formatter{}}, funcsCalled: map[string]string{}, funcsInFile: map[string]bool{}}
	s.autoescape = ast.AutoescapeOff
	if auto {
		s.autoescape = ast.AutoescapeOn
	}
	s.scope.push()
	s.walk(pn)
	out := buf.String()
	const pre, suf = "output += ", ";\n"
	verifAssert(len(out) >= len(pre)+len(suf) && out[:len(pre)] == pre && out[len(out)-len(suf):] == suf, "harness: unexpected shape of a print statement: "+out)
	return out[len(pre) : len(out)-len(suf)]
}

func jsReplaceOnce(s, old, new string) (string, bool) {
	for i := 0; i+len(old) <= len(s); i++ {
		if s[i:i+len(old)] == old {
			return s[:i] + new + s[i+len(old):], true
		}
	}
	return s, false
}

var jsChains = [][]string{
	{"|truncate:8", "|escapeUri"},
	{"|escapeUri", "|escapeJsString"},
	{"|insertWordBreaks:2", "|truncate:5,false"},
	{"|noAutoescape", "|truncate:3"},
	{"|truncate:3", "|id"},
	{"|escapeJsString", "|truncate:8", "|escapeUri"},
	{"|changeNewlineToBr", "|truncate:9"},
	{"|truncate:2+1,not true", "|escapeHtml"},
}

// H_jsChain (C16): the JavaScript emitted for a chain of print directives applies the directives'
// JavaScript counterparts in the order written (left to right, as the Go renderer does), each
// with its own arguments; autoescaping, unless cancelled, is applied last. The expected
// expression is composed from the expressions emitted for the single directives.
func H_jsChain(c int, auto bool) {
	value := jsPrintExpr("|noAutoescape", false) // the bare value
	expr := value
	for _, d := range jsChains[c] {
		single := jsPrintExpr(d, false)
		var ok bool
		expr, ok = jsReplaceOnce(single, value, expr)
		verifAssert(ok, "harness: the expression of a single directive does not contain the value")
	}
	if auto {
		cancelled := false
		for _, d := range jsChains[c] {
			if jsPrintExpr(d, true) == jsPrintExpr(d, false) {
				cancelled = true
			}
		}
		if !cancelled {
			wrapped, ok := jsReplaceOnce(jsPrintExpr("", true), value, expr)
			verifAssert(ok, "harness: autoescaped print does not contain the value")
			expr = wrapped
		}
	}
	chain := ""
	for _, d := range jsChains[c] {
		chain += d
	}
	got := jsPrintExpr(chain, auto)
	verifObserve("chain", chain)
	verifObserve("js", got)
	verifAssert(got == expr, "C16: the JavaScript for a directive chain does not apply the directives left to right")
}
