package soyjs

import (
	"bytes"
	"unicode/utf8"

	"github.com/robfig/soy/ast"
	"github.com/robfig/soy/data"
)

func jsHex(c byte) int {
	switch {
	case c >= '0' && c <= '9':
		return int(c - '0')
	case c >= 'A' && c <= 'F':
		return int(c-'A') + 10
	case c >= 'a' && c <= 'f':
		return int(c-'a') + 10
	}
	return -1
}

// refJSLiteral decodes the body of an ECMAScript string literal delimited by quote; ok=false
// when the body is not a single well-formed literal or could terminate a script element.
func refJSLiteral(t string, quote byte) (string, bool) {
	if !utf8.ValidString(t) {
		return "", false // a script is UTF-8 text: a literal holding part of a character denotes U+FFFD
	}
	var out []byte
	for i := 0; i < len(t); i++ {
		c := t[i]
		switch {
		case c == quote || c == '\n' || c == '\r':
			return "", false
		case c == '<' && len(t)-i >= 8 && (t[i+1] == '/') && (t[i+2] == 's' || t[i+2] == 'S'):
			return "", false // "</s..." inside a script
		case c == 0xE2 && i+2 < len(t) && t[i+1] == 0x80 && (t[i+2] == 0xA8 || t[i+2] == 0xA9):
			return "", false
		case c != '\\':
			out = append(out, c)
		default:
			if i+1 >= len(t) {
				return "", false
			}
			i++
			switch t[i] {
			case '\\', '\'', '"', '/':
				out = append(out, t[i])
			case 'n':
				out = append(out, '\n')
			case 'r':
				out = append(out, '\r')
			case 't':
				out = append(out, '\t')
			case 'b':
				out = append(out, '\b')
			case 'f':
				out = append(out, '\f')
			case 'u':
				if i+4 >= len(t) {
					return "", false
				}
				r := 0
				for j := 1; j <= 4; j++ {
					h := jsHex(t[i+j])
					if h < 0 {
						return "", false
					}
					r = r<<4 | h
				}
				out = utf8.AppendRune(out, rune(r))
				i += 4
			default:
				return "", false
			}
		}
	}
	return string(out), true
}

// refJSAppends decodes a sequence of statements `output += '...';` (one or several: a generator
// may split long text) and returns the concatenation of what the literals denote.
func refJSAppends(out string) (string, bool) {
	const pre, suf = "output += '", "';\n"
	var text []byte
	n := 0
	for len(out) > 0 {
		if len(out) < len(pre) || out[:len(pre)] != pre {
			return "", false
		}
		out = out[len(pre):]
		end := -1
		for i := 0; i < len(out); i++ {
			if out[i] == '\\' {
				i++
				continue
			}
			if out[i] == '\'' {
				end = i
				break
			}
		}
		if end < 0 || len(out)-end < len(suf) || out[end:end+len(suf)] != suf {
			return "", false
		}
		dec, ok := refJSLiteral(out[:end], '\'')
		if !ok {
			return "", false
		}
		text = append(text, dec...)
		out = out[end+len(suf):]
		n++
	}
	return string(text), n > 0
}

func jsSymText(n, extra int) string {
	s := verifString(n)
	for i := 0; i < len(s); i++ {
		verifAssume(s[i] < 0x80)
	}
	switch extra {
	case 1:
		s += "é"
	case 2:
		s = " " + s
	case 3:
		s += " "
	case 4:
		s = "\U0001F600" + s
	case 5:
		s = "</script>" + s
	}
	return s
}

var jsSites = []string{"raw text", "string literal", "map literal key", "css suffix", "global string", "message text"}

// H_jsLiteral: the JavaScript emitted for a template string (site) whose characters are symbolic
// is one well-formed literal that denotes exactly those characters.
func H_jsLiteral(site, n, extra int) { jsCheckText(site, jsSymText(n, extra)) }

func jsCheckText(site int, text string) {
	var buf bytes.Buffer
	s := &state{wr: &buf, bufferName: "output", funcsCalled: map[string]string{}, funcsInFile: map[string]bool{}}
	s.scope.push()
	var body string
	var quote byte = '\''
	appends := false // the site emits append statements (possibly several)
	cut := func(prefix, suffix string) {
		out := buf.String()
		verifObserve("js", out)
		verifAssert(len(out) >= len(prefix)+len(suffix) && out[:len(prefix)] == prefix && out[len(out)-len(suffix):] == suffix,
			"unexpected shape of the emitted statement for "+jsSites[site])
		body = out[len(prefix) : len(out)-len(suffix)]
	}
	switch site {
	case 0:
		s.walk(&ast.RawTextNode{Text: []byte(text)})
		appends = true
	case 1:
		s.walk(&ast.StringNode{Quoted: "<unused>", Value: text})
		cut("'", "'")
	case 2:
		s.walk(&ast.MapLiteralNode{Items: map[string]ast.Node{text: &ast.IntNode{Value: 1}}})
		cut("{\"", "\":1}")
		quote = '"'
	case 3:
		s.walk(&ast.CssNode{Suffix: text})
		appends = true
	case 4:
		s.walk(&ast.GlobalNode{Name: "G", Value: data.String(text)})
		cut("'", "'")
	case 5:
		s.walk(&ast.MsgNode{Body: &ast.ListNode{Nodes: []ast.Node{&ast.RawTextNode{Text: []byte(text)}}}})
		appends = true
	}
	verifObserve("text", text)
	if appends {
		out := buf.String()
		verifObserve("js", out)
		dec, ok := refJSAppends(out)
		verifAssert(ok, "emitted JavaScript string literal is malformed or not script-safe: "+jsSites[site])
		verifAssert(dec == text, "emitted JavaScript string literal does not denote the original characters: "+jsSites[site])
		return
	}
	dec, ok := refJSLiteral(body, quote)
	verifAssert(ok, "emitted JavaScript string literal is malformed or not script-safe: "+jsSites[site])
	verifAssert(dec == text, "emitted JavaScript string literal does not denote the original characters: "+jsSites[site])
}

var jsLongBase = []int{64, 128, 256, 512, 1024, 2048, 4096}
var jsLongChars = []string{"\u20ac", "\U0001F600", "\u2028", "\u00e9"}

// H_jsLong: long text: a padding of jsLongBase[b]-4+d bytes (d in 0..5), then a multi-byte
// character (index ch), then one symbolic ASCII byte, so that the character straddles or
// touches every power-of-two offset 64..4096; sites as in H_jsLiteral.
func H_jsLong(site, b, d, ch int) {
	pad := make([]byte, jsLongBase[b]-4+d)
	for i := range pad {
		pad[i] = 'a' + byte(i%26)
	}
	tail := verifString(1)
	verifAssume(tail[0] < 0x80)
	jsCheckText(site, string(pad)+jsLongChars[ch]+tail)
}

func jsCount(s, sub string) int {
	n := 0
	for i := 0; i+len(sub) <= len(s); i++ {
		if s[i:i+len(sub)] == sub {
			n++
		}
	}
	return n
}

func jsIdentOK(s string) bool {
	if len(s) == 0 {
		return false
	}
	for i := 0; i < len(s); i++ {
		c := s[i]
		ok := c == '_' || c == '$' || c >= 'a' && c <= 'z' || c >= 'A' && c <= 'Z' || (i > 0 && c >= '0' && c <= '9')
		if !ok {
			return false
		}
	}
	return true
}

// H_jsStruct: one function per template under its qualified name, namespace objects declared
// before use, balanced braces/parens outside string literals, generated variable names are
// identifiers.
func H_jsStruct(t int, es6 bool) {
	reg := jsMust(jsGlobals, jsFiles[t]...)
	for _, f := range reg.SoyFiles {
		out, err := jsWrite(f, es6)
		verifAssert(err == nil, "js generation failed")
		verifObserve("js", out)
		for _, n := range f.Body {
			tn, ok := n.(*ast.TemplateNode)
			if !ok {
				continue
			}
			if es6 {
				verifAssert(jsCount(out, "export function "+ES6Identifier(tn.Name)+"(opt_data, opt_sb, opt_ijData) {") == 1, "no single exported function for template "+tn.Name)
			} else {
				verifAssert(jsCount(out, "\n"+tn.Name+" = function(opt_data, opt_sb, opt_ijData) {") == 1, "no single function definition under the qualified name of "+tn.Name)
			}
		}
		if !es6 {
			// every prefix of the namespace is declared, outermost first, before the first function
			ns := ""
			for _, n := range f.Body {
				if nn, ok := n.(*ast.NamespaceNode); ok {
					ns = nn.Name
				}
			}
			firstFn := len(out)
			for i := 0; i+10 <= len(out); i++ {
				if out[i:i+10] == " function(" {
					firstFn = i
					break
				}
			}
			last := -1
			for i := 0; i <= len(ns); i++ {
				if i < len(ns) && ns[i] != '.' {
					continue
				}
				// an assignment "<prefix> = {}" (whatever guards or declares it) as a whole token
				decl := ns[:i] + " = {}"
				at := -1
				for k := 0; k+len(decl) <= firstFn; k++ {
					if out[k:k+len(decl)] != decl {
						continue
					}
					if k > 0 {
						p := out[k-1]
						if p == '.' || p == '_' || p == '$' || p >= '0' && p <= '9' || p >= 'a' && p <= 'z' || p >= 'A' && p <= 'Z' {
							continue
						}
					}
					at = k
					break
				}
				verifAssert(at >= 0, "a namespace object is not declared before the functions that live in it: "+ns[:i])
				verifAssert(at > last, "namespace objects are not declared outermost first")
				last = at
			}
		}
		// braces, brackets and parentheses balance outside string literals and comments
		depth, par, brk := 0, 0, 0
		for i := 0; i < len(out); i++ {
			switch out[i] {
			case '\'', '"':
				q := out[i]
				for i++; i < len(out) && out[i] != q; i++ {
					if out[i] == '\\' {
						i++
					}
					verifAssert(i < len(out) && out[i] != '\n', "line break inside a string literal")
				}
				verifAssert(i < len(out), "unterminated string literal in generated JavaScript")
			case '/':
				if i+1 < len(out) && out[i+1] == '/' {
					for i < len(out) && out[i] != '\n' {
						i++
					}
				}
			case '{':
				depth++
			case '}':
				depth--
				verifAssert(depth >= 0, "unbalanced } in generated JavaScript")
			case '(':
				par++
			case ')':
				par--
				verifAssert(par >= 0, "unbalanced ) in generated JavaScript")
			case '[':
				brk++
			case ']':
				brk--
				verifAssert(brk >= 0, "unbalanced ] in generated JavaScript")
			}
		}
		verifAssert(depth == 0 && par == 0 && brk == 0, "unbalanced brackets in generated JavaScript")
		// an else continues an if statement: outside literals and comments the last token before it
		// is the closing brace of the preceding branch
		for i := 0; i+4 <= len(out); i++ {
			switch out[i] {
			case '\'', '"':
				q := out[i]
				for i++; i < len(out) && out[i] != q; i++ {
					if out[i] == '\\' {
						i++
					}
				}
			case '/':
				if i+1 < len(out) && out[i+1] == '/' {
					for i < len(out) && out[i] != '\n' {
						i++
					}
				}
			case 'e':
				if out[i:i+4] == "else" && (i == 0 || !jsIdentOK(out[i-1:i]) || out[i-1] >= '0' && out[i-1] <= '9') && (i+4 == len(out) || !jsIdentOK("a"+out[i+4:i+5])) {
					k := i - 1
					for k >= 0 && (out[k] == ' ' || out[k] == '\n' || out[k] == '\t') {
						k--
					}
					verifAssert(k >= 0 && out[k] == '}', "an else without a preceding if branch in generated JavaScript")
				}
			}
		}
		// a '.' that follows an identifier character, ')' or ']' is a property access and must be
		// followed by an identifier start (outside string literals and comments)
		for i := 0; i+1 < len(out); i++ {
			switch out[i] {
			case '\'', '"':
				q := out[i]
				for i++; i < len(out) && out[i] != q; i++ {
					if out[i] == '\\' {
						i++
					}
				}
			case '/':
				if out[i+1] == '/' {
					for i < len(out) && out[i] != '\n' {
						i++
					}
				}
			case '.':
				if i > 0 {
					p := out[i-1]
					prevIdent := p == ')' || p == ']'
					// the token before the dot: an identifier (may end in digits) or a number literal
					j := i - 1
					for j >= 0 && (out[j] == '_' || out[j] == '$' || out[j] >= 'a' && out[j] <= 'z' || out[j] >= 'A' && out[j] <= 'Z' || out[j] >= '0' && out[j] <= '9') {
						j--
					}
					if j+1 < i {
						f := out[j+1]
						prevIdent = f == '_' || f == '$' || f >= 'a' && f <= 'z' || f >= 'A' && f <= 'Z'
					}
					n := out[i+1]
					nextStart := n == '_' || n == '$' || n >= 'a' && n <= 'z' || n >= 'A' && n <= 'Z'
					verifAssert(!prevIdent || nextStart, "property access with a name that is not an identifier in generated JavaScript")
				}
			}
		}
		// every "var NAME" declares an identifier
		for i := 0; i+4 < len(out); i++ {
			if out[i:i+4] == "var " && (i == 0 || out[i-1] == ' ' || out[i-1] == '\n' || out[i-1] == '(') {
				j := i + 4
				for j < len(out) && out[j] != ' ' && out[j] != ';' && out[j] != '=' {
					j++
				}
				verifAssert(jsIdentOK(out[i+4:j]), "generated variable name is not an identifier: "+out[i+4:j])
			}
		}
	}
}

// H_jsLiteralIn: a string literal (marker + n symbolic ASCII bytes) standing at position pos of a
// command: the generated JavaScript contains exactly the token the generator emits for the
// literal alone (whose denotation H_jsLiteral checks), wherever the literal stands.
func H_jsLiteralIn(pos, n int) {
	text := "Zq" + jsSymText(n, 0)
	lit := func() ast.Node { return &ast.StringNode{Quoted: "<unused>", Value: text} }
	gen := func(node ast.Node) string {
		var buf bytes.Buffer
		s := &state{wr: &buf, bufferName: "output", options: Options{Formatter: &ES5Formatter{}}, funcsCalled: map[string]string{}, funcsInFile: map[string]bool{}}
		s.scope.push()
		s.walk(node)
		return buf.String()
	}
	want := gen(lit())
	x := &ast.DataRefNode{Key: "x"}
	body := &ast.ListNode{Nodes: []ast.Node{&ast.RawTextNode{Text: []byte("b")}}}
	var node ast.Node
	switch pos {
	case 0:
		node = &ast.PrintNode{Arg: lit()}
	case 1:
		node = &ast.CallNode{Name: "a.u", Params: []ast.Node{&ast.CallParamValueNode{Key: "p", Value: lit()}}}
	case 2:
		node = &ast.CallNode{Name: "a.u", AllData: true, Params: []ast.Node{&ast.CallParamValueNode{Key: "p", Value: lit()}, &ast.CallParamValueNode{Key: "q", Value: x}}}
	case 3:
		node = &ast.LetValueNode{Name: "v", Expr: lit()}
	case 4:
		node = &ast.IfNode{Conds: []*ast.IfCondNode{{Cond: &ast.EqNode{BinaryOpNode: ast.BinaryOpNode{Name: "==", Arg1: x, Arg2: lit()}}, Body: body}}}
	case 5:
		node = &ast.SwitchNode{Value: x, Cases: []*ast.SwitchCaseNode{{Values: []ast.Node{lit()}, Body: body}, {Body: body}}}
	case 6:
		node = &ast.PrintNode{Arg: &ast.FunctionNode{Name: "strContains", Args: []ast.Node{x, lit()}}}
	case 7:
		node = &ast.PrintNode{Arg: x, Directives: []*ast.PrintDirectiveNode{{Name: "insertWordBreaks", Args: []ast.Node{lit()}}}}
	case 8:
		node = &ast.PrintNode{Arg: &ast.DataRefNode{Key: "x", Access: []ast.Node{&ast.DataRefExprNode{Arg: lit()}}}}
	case 9:
		node = &ast.ForNode{Var: "i", List: &ast.ListLiteralNode{Items: []ast.Node{lit()}}, Body: body}
	case 10:
		node = &ast.PrintNode{Arg: &ast.ElvisNode{BinaryOpNode: ast.BinaryOpNode{Name: "?:", Arg1: x, Arg2: lit()}}}
	case 11:
		node = &ast.PrintNode{Arg: &ast.TernNode{Arg1: x, Arg2: lit(), Arg3: &ast.NullNode{}}}
	case 12:
		node = &ast.CallNode{Name: "a.u", Data: &ast.MapLiteralNode{Items: map[string]ast.Node{"k": lit()}}}
	case 13:
		node = &ast.MsgNode{Body: &ast.ListNode{Nodes: []ast.Node{&ast.MsgPlaceholderNode{Name: "P", Body: &ast.PrintNode{Arg: lit()}}}}}
	case 14:
		node = &ast.CssNode{Expr: lit(), Suffix: "c"}
	case 15:
		node = &ast.LogNode{Body: &ast.ListNode{Nodes: []ast.Node{&ast.PrintNode{Arg: lit()}}}}
	}
	out := gen(node)
	verifObserve("text", text)
	verifObserve("js", out)
	verifAssert(jsCount(out, want) == 1, "a string literal is not emitted as the same JavaScript token at every position of a command")
}

// jsQuoteSoy spells text as a Soy string literal (the escapes the language defines).
func jsQuoteSoy(text string) string {
	q := "'"
	for i := 0; i < len(text); i++ {
		switch c := text[i]; c {
		case '\\':
			q += "\\\\"
		case '\'':
			q += "\\'"
		case '\n':
			q += "\\n"
		case '\r':
			q += "\\r"
		case '\t':
			q += "\\t"
		case '\b':
			q += "\\b"
		case '\f':
			q += "\\f"
		default:
			q += text[i : i+1]
		}
	}
	return q + "'"
}

// H_jsSource: a string literal of n symbolic ASCII characters written in template source (as a
// print, with autoescaping cancelled) through the real parser and the generator: the emitted
// literal denotes exactly the characters the source literal denotes.
func H_jsSource(n int) { h_jsSource(n, 0) }

// H_jsSourceX: the same with a non-ASCII character beside the symbolic ones (extra as in
// jsSymText: 1 a two-byte character after them, 4 a character outside the BMP before them).
func H_jsSourceX(n, extra int) { h_jsSource(n, extra) }

func h_jsSource(n, extra int) {
	text := jsSymText(n, extra)
	for i := 0; i < len(text); i++ {
		verifAssume(text[i] >= 0x20 || text[i] == '\n' || text[i] == '\t' || text[i] == '\r')
		verifAssume(text[i] != '{' && text[i] != '}') // (braces end the tag: not spellable inside a print)
	}
	src := "{namespace n}\n/** */\n{template .t autoescape=\"false\"}\n{" + jsQuoteSoy(text) + "}\n{/template}\n"
	reg := jsMust(data.Map{}, src)
	out, err := jsWrite(reg.SoyFiles[0], false)
	verifAssert(err == nil, "js generation failed")
	verifObserve("text", text)
	verifObserve("js", out)
	const pre, suf = "  output += '", "';\n"
	at := -1
	for i := 0; i+len(pre) <= len(out); i++ {
		if out[i:i+len(pre)] == pre {
			at = i + len(pre)
			break
		}
	}
	verifAssert(at >= 0, "no append statement for a printed string literal")
	end := -1
	for i := at; i+len(suf) <= len(out); i++ {
		if out[i] == '\\' {
			i++
			continue
		}
		if out[i:i+len(suf)] == suf {
			end = i
			break
		}
	}
	verifAssert(end >= 0, "unterminated literal for a printed string literal")
	dec, ok := refJSLiteral(out[at:end], '\'')
	verifAssert(ok, "emitted JavaScript string literal is malformed or not script-safe: source literal")
	verifAssert(dec == text, "a string literal in template source does not denote the same characters in the generated JavaScript")
}
