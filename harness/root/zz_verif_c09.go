package soy

import (
	"strconv"
	"strings"
	"sync"
)

// H_compileRace (C09): two independent bundles are compiled (parse, registry, data-reference
// check, globals, message ids) by two goroutines at once, under the happens-before check of every
// heap access and under both run-queue disciplines: independent compilations share no
// unsynchronised memory, and each yields what it yields alone.
func H_compileRace(a, b int)                 { h_compileRace(a, b, true, true) }
func H_compileRaceDbg(a, b int, sc, rt bool) { h_compileRace(a, b, sc, rt) }
func h_compileRace(a, b int, sc, rt bool) {
	compile := func(t int) string {
		bd := NewBundle()
		for _, f := range c13Bundles[t] {
			bd.AddTemplateString(f.name, f.src)
		}
		bd.AddGlobalsMap(c13Globals)
		bd.AddGlobalsMap(c13Globals2)
		// (globals given as text are evaluated while the bundle is put together)
		gm, gerr := ParseGlobals(strings.NewReader("G_TXT_A = 1 + " + strconv.Itoa(t) + "\nG_TXT_B = 'x' + G_TXT_A\n"))
		if gerr != nil {
			return "globals: " + gerr.Error()
		}
		bd.AddGlobalsMap(gm)
		reg, err := bd.Compile()
		if err != nil {
			return "reject: " + err.Error()
		}
		var out []byte
		for _, f := range reg.SoyFiles {
			c13MsgIDs(f, &out)
		}
		return "accept: " + string(out) + " " + gm["G_TXT_B"].String()
	}
	alone := []string{compile(a), compile(b)}
	if sc {
		verifSchedChoice()
	}
	verifRaceTrack(rt)
	var wg sync.WaitGroup
	got := make([]string, 2)
	for i, t := range []int{a, b} {
		wg.Add(1)
		go func(i, t int) {
			defer wg.Done()
			got[i] = compile(t)
		}(i, t)
	}
	wg.Wait()
	verifRaceTrack(false)
	verifObserve("a", alone[0])
	verifAssert(got[0] == alone[0] && got[1] == alone[1], "C09: a compilation running beside another one yields a different result")
	verifAssert(verifLiveGoroutines() == 0, "C18: goroutine left behind by a compilation")
}
