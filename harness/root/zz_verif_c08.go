package soy

import (
	"bytes"

	"github.com/robfig/soy/data"
	"github.com/robfig/soy/soyhtml"
	"github.com/robfig/soy/soyjs"
)

var c08jsBundles = [][]c13File{
	// 0: directive chains in which a cancelling directive is followed by / follows another one
	{{"one.soy", "{namespace a}\n/** @param x */\n{template .t}\n<p>{$x|noAutoescape|truncate:8}</p>{$x|id|escapeUri}{$x|truncate:3|noAutoescape}{$x|escapeHtml|id}{$x}{call b.u data=\"all\"/}\n{/template}\n"},
		{"two.soy", "{namespace b}\n/** @param x */\n{template .u}\n{$x|id|insertWordBreaks:2|noAutoescape}{msg desc=\"d\"}m {$x|noAutoescape|truncate:1} <b>{$x}</b>{/msg}{css $x, c}\n{/template}\n"}},
	// 1: lets, loops, literals, globals (what else the generator walks)
	{{"one.soy", "{namespace a}\n/** @param x */\n{template .t}\n{let $y: [$x, 'k'] /}{foreach $i in $y}{$i|noAutoescape|id}{/foreach}{let $mm: ['a': $x] /}{$mm['a']|id|truncate:1}{G_STR|noAutoescape|escapeHtml}{switch $x}{case '<'}lt{default}d{/switch}\n{/template}\n"}},
}

// H_renderAfterJS (C08): a render, a JavaScript generation of every file of the same compiled
// bundle (formatter by es6), and the same render again: the generation must leave the compiled
// bundle untouched (frozen during the generation) and the second render writes the same bytes.
func H_renderAfterJS(t int, es6 bool) {
	b := NewBundle()
	for _, f := range c08jsBundles[t] {
		b.AddTemplateString(f.name, f.src)
	}
	b.AddGlobalsMap(c13Globals)
	b.AddGlobalsMap(c13Globals2)
	reg, err := b.Compile()
	if err != nil {
		verifAssert(false, "harness: bundle does not compile: "+err.Error())
	}
	tofu := soyhtml.NewTofu(reg)
	x := verifString(2)
	m := data.Map{"x": data.String(x)}
	render := func() (string, error) {
		var buf bytes.Buffer
		err := tofu.NewRenderer("a.t").Execute(&buf, m)
		return buf.String(), err
	}
	r0, e0 := render()
	verifObserve("out", r0)
	verifFreeze("compiled registry", reg)
	for _, f := range reg.SoyFiles {
		var buf bytes.Buffer
		opt := soyjs.Options{}
		if es6 {
			opt.Formatter = &soyjs.ES6Formatter{}
		}
		gerr := soyjs.Write(&buf, f, opt)
		verifAssert(gerr == nil, "harness: js generation failed")
	}
	verifUnfreeze()
	r1, e1 := render()
	verifAssert((e0 == nil) == (e1 == nil), "C08: a render after a JavaScript generation differs in outcome")
	verifAssert(r0 == r1, "C08: a render after a JavaScript generation writes different bytes")
}
