package soy

// H_recompile (C07): the data-reference rules decide the same way every time a bundle is
// compiled: bundles whose templates declare params in headers ({@param}) or in soydoc, valid or
// with exactly one rule broken, compiled three times through the same Bundle value.
func H_recompile(v int) {
	srcs := []struct {
		src   string
		valid bool
	}{
		{"{namespace a}\n{template .t}\n{@param title: string}\n{@param? sub: string}\n<h1>{$title}</h1>{if $sub}{$sub}{/if}{call .p}{param q: $title /}{/call}\n{/template}\n{template .p}\n{@param q: string}\n({$q})\n{/template}\n", true},
		{"{namespace a}\n{template .t}\n{@param title: string}\n{@param unused: string}\n<h1>{$title}</h1>\n{/template}\n", false},
		{"{namespace a}\n{template .t}\n{@param title: string}\n{$title}{$undeclared}\n{/template}\n", false},
		{"{namespace a}\n{template .t}\n{@param title: string}\n{$title}{call .p /}\n{/template}\n{template .p}\n{@param q: string}\n({$q})\n{/template}\n", false},
		{"{namespace a}\n/** @param title */\n{template .t}\n{$title}{call .p}{param q: $title /}{/call}\n{/template}\n/** @param q */\n{template .p}\n({$q})\n{/template}\n", true},
		{"{namespace a}\n/** @param title\n @param unused */\n{template .t}\n{$title}\n{/template}\n", false},
		// templates without a soydoc comment that follow a documented template
		{"{namespace a}\n/** @param a */\n{template .t}\n{$a}\n{/template}\n{template .p}\n{@param q: string}\n({$q})\n{/template}\n", true},
		{"{namespace a}\n/** @param a */\n{template .t}\n{$a}\n{/template}\n{template .p}\nstatic\n{/template}\n", true},
		{"{namespace a}\n/** @param a */\n{template .t}\n{$a}\n{/template}\n{template .p}\n{$a}\n{/template}\n", false},
		{"{namespace a}\n/** @param a */\n{template .t}\n{$a}{call .p /}\n{/template}\n{template .p}\n{@param? q: string}\n({$q ?: ''})\n{/template}\n/** */\n{template .z}\nz\n{/template}\n", true},
		// (entries 10..13 below use extra files; header params with default values come last)
		// 10..13: calls through {alias a.b}
		{"{namespace m}\n{alias a.b}\n/** */\n{template .t}\n{call b.c.tmpl}{param q: 1 /}{/call}{call b.tmpl}{param r: 2 /}{/call}\n{/template}\n", true},
		{"{namespace m}\n{alias a.b}\n/** */\n{template .t}\n{call b.c.tmpl /}\n{/template}\n", false},
		{"{namespace m}\n{alias a.b}\n/** */\n{template .t}\n{call b.tmpl /}\n{/template}\n", false},
		{"{namespace m}\n{alias a.b}\n/** */\n{template .t}\n{call b.c.tmpl}{param q: 1 /}{param zz: 2 /}{/call}\n{/template}\n", false},
		// 14, 15: a header param with a default value is still a required param of a {call}
		{"{namespace a}\n{template .t}\n{call .p /}\n{/template}\n{template .p}\n{@param greeting: string = 'hi'}\n({$greeting})\n{/template}\n", false},
		{"{namespace a}\n{template .t}\n{call .p}{param greeting: 'x' /}{/call}\n{/template}\n{template .p}\n{@param greeting: string = 'hi'}\n({$greeting})\n{/template}\n", true},
	}
	b := NewBundle().AddTemplateString("f.soy", srcs[v].src)
	if v >= 10 && v <= 13 {
		// callees reached through an alias: a.b.c.tmpl requires q; a namespace literally called b.c
		// has a template of the same name without params
		b.AddTemplateString("lib1.soy", "{namespace a.b.c}\n/** @param q */\n{template .tmpl}\n({$q})\n{/template}\n")
		b.AddTemplateString("lib2.soy", "{namespace b.c}\n/** */\n{template .tmpl}\nliteral\n{/template}\n")
		b.AddTemplateString("lib3.soy", "{namespace a.b}\n/** @param r */\n{template .tmpl}\n[{$r}]\n{/template}\n")
	}
	for i := 0; i < 3; i++ {
		_, err := b.Compile()
		if srcs[v].valid {
			verifAssert(err == nil, "C07: a bundle satisfying the data-reference rules was rejected (compile "+string(rune('1'+i))+")")
		} else {
			verifAssert(err != nil, "C07: a bundle violating the data-reference rules was accepted (compile "+string(rune('1'+i))+")")
		}
	}
	_, err := b.CompileToTofu()
	verifAssert((err == nil) == srcs[v].valid, "C07: CompileToTofu decides differently from Compile")
}
