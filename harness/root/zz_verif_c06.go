package soy

import "strings"

var c06Globals = []string{"1", "-1", "'s'", "1.5", "true", "null", "1 + 2", "$x", "$x.y", "1 % 0", "length(1)", "f(", "'a' < 1", "[1, 2]", "UNDEF", "not 1", "1 2 3", "", "-'a'",
	"'\\u12'", "'ab\\u123'", "'\\u00e9'", "'\\", "['a': 1", "0x", "1e", "$x[", "f(1,", "'\\q'", "[1, $x]", "[1, UNDEF]", "['a': UNDEF]"}

// H_globals: ParseGlobals on "name = <expr>" for valid, erroring and malformed expressions:
// returns a map or an error, never panics.
func H_globals(e int, eq bool) {
	line := "g " + c06Globals[e]
	if eq {
		line = "g = " + c06Globals[e]
	}
	in := "// comment\n\n" + line + "\nh = 2\n"
	m, err := ParseGlobals(strings.NewReader(in))
	verifAssert((m == nil) == (err != nil), "C06: ParseGlobals result is neither (map, nil) nor (nil, err)")
	if err != nil {
		verifObserve("res", "error")
	} else {
		verifObserve("res", "ok")
	}
	verifAssert(verifLiveGoroutines() == 0, "C18: ParseGlobals left a scanner goroutine behind")
}

// expression contexts (as parse.exprCtx): the symbolic bytes go between pre and post
var c06ExprCtx = []struct{ pre, post string }{
	{"", ""}, {"1 ", ""}, {"$x.", ""}, {"$x[", ""}, {"['a':", ""}, {"f(", ""}, {"'s", ""}, {"1 ? ", ""}, {"-", ""},
	{"not ", ""}, {"1 + ", " 2"}, {"(", ")"}, {"[", "]"}, {"2 * ", ""}, {"1 ?: ", ""}, {"0x", ""}, {"1.", ""}, {"1e", ""},
	{"'\\u", ""}, {"max(1, ", ""}, {"'ab\\u", "'"}, {"['\\u", "': 1]"}, {"[1, ", ""}, {"(", ""},
}

// H_globalsSym: ParseGlobals on "g = <pre><k symbolic bytes><post>": a map or an error for every
// byte values (line breaks and further '=' included), never a panic, no goroutine left.
func H_globalsSym(ctx, k int) {
	c := c06ExprCtx[ctx]
	in := "// comment\ng = " + c.pre + verifString(k) + c.post + "\nh = 2\n"
	verifObserve("in", in)
	m, err := ParseGlobals(strings.NewReader(in))
	verifAssert((m == nil) == (err != nil), "C06: ParseGlobals result is neither (map, nil) nor (nil, err)")
	verifAssert(verifLiveGoroutines() == 0, "C18: ParseGlobals left a scanner goroutine behind")
}

var c06Second = []string{"1", "g", "g + 1", "UNDEF", "[g, 2]", "'\\"}

// H_globalsSeq: a file of several definitions that depend on one another: the first name is
// defined from expression e1 (valid, undefined, erroring or malformed), a second definition
// (expression e2, which may refer to the first) either redefines the same name or defines another
// one, and a third line follows. A map or an error, never a panic, no goroutine left.
func H_globalsSeq(e1, e2 int, same bool) {
	name2 := "h"
	if same {
		name2 = "g"
	}
	in := "g = " + c06Globals[e1] + "\n" + name2 + " = " + c06Second[e2] + "\nk = g\n"
	verifObserve("in", in)
	m, err := ParseGlobals(strings.NewReader(in))
	verifAssert((m == nil) == (err != nil), "C06: ParseGlobals result is neither (map, nil) nor (nil, err)")
	if err != nil {
		verifObserve("res", "error")
	} else {
		verifObserve("res", "ok")
	}
	verifAssert(verifLiveGoroutines() == 0, "C18: ParseGlobals left a scanner goroutine behind")
}
