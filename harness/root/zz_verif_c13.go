package soy

import (
	"bytes"
	"strconv"

	"github.com/robfig/soy/ast"
	"github.com/robfig/soy/data"
	"github.com/robfig/soy/soyjs"
)

type c13File struct{ name, src string }

var c13Bundles = [][]c13File{
	// 0: valid: calls across files, messages with colliding placeholder names, map literals, globals
	{{"one.soy", "{namespace a}\n/** @param x\n @param m */\n{template .t}\n{msg desc=\"d\"}Hi <b>{$x}</b> {$m.x}{$m.y.x}{/msg}{call b.u data=\"all\"/}{call b.w/}{['q': 1, 'p': $x, 'r': G_MAP]}{G_LIST}{keys(['b': 1, 'a': 2])}\n{/template}\n"},
		{"two.soy", "{namespace b}\n/** @param x */\n{template .u}\n{$x|truncate:2}{msg desc=\"e\" meaning=\"m\"}{$x}{$x.x}{/msg}\n{/template}\n/** */\n{template .w}\nw{G_STR}\n{/template}\n"},
		{"three.soy", "{namespace c}\n/** @param? z */\n{template .v}\n{if $z}{$z}{/if}\n{/template}\n"}},
	// 1: rejected by the data ref checker (unused param)
	{{"one.soy", "{namespace a}\n/** @param x\n @param unused */\n{template .t}\n{$x}\n{/template}\n"},
		{"two.soy", "{namespace b}\n/** */\n{template .u}\nu\n{/template}\n"}},
	// 2: rejected by the parser: the message names token types
	{{"one.soy", "{namespace a}\n/** */\n{template .t}\n{if true}x{/switch}\n{/template}\n"},
		{"two.soy", "{namespace b}\n/** */\n{template .u}\nu\n{/template}\n"}},
	// 3: undefined global
	{{"one.soy", "{namespace a}\n/** */\n{template .t}\n{G_STR}{NOPE}\n{/template}\n"}},
	// 4: parser error mentioning a boolean literal and a missing attribute value
	{{"one.soy", "{namespace a}\n/** */\n{template .t private=true}\nx\n{/template}\n"}},
	// 5: two files, each with its own error (only the accept/reject decision is order independent)
	{{"one.soy", "{namespace a}\n/** @param unused */\n{template .t}\nx\n{/template}\n"},
		{"two.soy", "{namespace b}\n/** */\n{template .u}\n{$undeclared}\n{/template}\n"}},
	// 7 (see below): header params without a soydoc comment, optional param, private template
	// 6: the same template name in two files
	{{"one.soy", "{namespace a}\n/** */\n{template .t}\nfirst\n{/template}\n"},
		{"two.soy", "{namespace a}\n/** */\n{template .t}\nsecond\n{/template}\n"}},
	{{"one.soy", "{namespace a}\n{template .t}\n{@param title: string}\n{@param? sub: string}\n<h1>{$title}</h1>{if $sub}{$sub}{/if}{call .p}{param q: $title /}{/call}\n{/template}\n{template .p private=\"true\"}\n{@param q: string}\n({$q})\n{/template}\n"}},
	// 8..12: rejected bundles whose error text lists several names
	{{"one.soy", "{namespace a}\n/** */\n{template .t}\n{call .u /}\n{/template}\n/** @param beta\n @param alpha\n @param? opt\n @param gamma */\n{template .u}\n{$alpha}{$beta}{$gamma}{$opt}\n{/template}\n"}},
	{{"one.soy", "{namespace a}\n/** */\n{template .t}\n{call .u}{param zeta: 1/}{param eta: 2/}{param theta: 3/}{/call}\n{/template}\n/** */\n{template .u}\nu\n{/template}\n"}},
	{{"one.soy", "{namespace a}\n/** @param u2\n @param u1\n @param u3 */\n{template .t}\nx\n{/template}\n"}},
	{{"one.soy", "{namespace a}\n/** */\n{template .t}\n{let $l2: 1/}{let $l1: 2/}{let $l3: 3/}x\n{/template}\n"}},
	{{"one.soy", "{namespace a}\n/** */\n{template .t}\n{$d2}{$d1}{$d3}\n{/template}\n"}},
	// 13: one namespace spread over two files whose declarations differ; values with HTML specials
	{{"one.soy", "{namespace a autoescape=\"false\"}\n/** @param x */\n{template .t}\n{$x.x}{call .t2 data=\"all\"/}\n{/template}\n"},
		{"two.soy", "{namespace a}\n/** @param x */\n{template .t2}\n{$x.x}{call b.u data=\"all\"/}\n{/template}\n"},
		{"three.soy", "{namespace b autoescape=\"true\"}\n/** @param x */\n{template .u}\n{$x.x}\n{/template}\n"}},
	// 14: three files that each fail to parse, the first one early, the last one at the end of a long
	// file (which error is reported must not depend on how the parses are scheduled)
	{{"one.soy", "{namespace a}\n{/switch}\n"},
		{"two.soy", "{namespace b}\n/** */\n{template .u}\n{foreach $x in}\n{/template}\n"},
		{"three.soy", "{namespace c}\n/** */\n{template .v1}\nsome text {sp} and more text\n{/template}\n/** @param x */\n{template .v2}\n{if $x}a{elseif not $x}b{else}c{/if}{$x|escapeUri}\n{/template}\n/** */\n{template .v3}\n{'unterminated}\n{/template}\n"}},
	// 15: a param forwarded by data="all" in one file, the same name declared but unused in another
	// (rejected whatever the order in which the files are added)
	{{"one.soy", "{namespace a}\n/** @param x */\n{template .fwd}\n{call c.sink data=\"all\"/}\n{/template}\n"},
		{"two.soy", "{namespace c}\n/** @param? x */\n{template .sink}\n{$x}\n{/template}\n/** @param x */\n{template .stale}\nno use\n{/template}\n"},
		{"three.soy", "{namespace d}\n/** @param x */\n{template .fwd2}\n{call c.sink data=\"all\"/}\n{/template}\n"}},
	// 16: a plural message with several explicit cases (their order in the id's fingerprint is the source order)
	{{"one.soy", "{namespace a}\n/** @param x */\n{template .t}\n{msg desc=\"f\"}{plural $x.n}{case 0}none{case 2}two{case 1}one{default}{$x.n} many{/plural}{/msg}\n{/template}\n"}},
	// 17: one expression without a derivable placeholder name, printed in a message of one file and
	// selecting the plural form in a message of another file
	{{"one.soy", "{namespace a}\n/** @param c */\n{template .t}\n{msg desc=\"p\"}first: {$c[0]}{/msg}\n{/template}\n"},
		{"two.soy", "{namespace b}\n/** @param c */\n{template .t}\n{msg desc=\"q\"}{plural $c[0]}{case 1}one{default}many{/plural}{/msg}\n{/template}\n"}},
	// 18: files added without a name
	{{"", "{namespace a}\n/** */\n{template .t}\nA{call b.t /}\n{/template}\n"},
		{"", "{namespace b}\n/** @param? x */\n{template .t}\nB{$x ?: ''}\n{/template}\n"}},
}

var c13Globals = data.Map{"G_MAP": data.Map{"k2": data.Int(2), "k1": data.String("v")}, "G_LIST": data.List{data.Int(1), data.String("s")}}

// (a second source of globals: the same map objects are handed to every bundle built in a run)
var c13Globals2 = data.Map{"G_STR": data.String("g")}

var c13Perms = [][]int{{0, 1, 2}, {1, 0, 2}, {2, 1, 0}, {0, 2, 1}, {1, 2, 0}, {2, 0, 1}}

func c13MsgIDs(n ast.Node, out *[]byte) {
	if m, ok := n.(*ast.MsgNode); ok {
		*out = append(*out, strconv.FormatUint(m.ID, 10)...)
		*out = append(*out, ':')
		for _, c := range m.Body.Children() {
			if ph, ok := c.(*ast.MsgPlaceholderNode); ok {
				*out = append(*out, ph.Name...)
				*out = append(*out, ',')
			}
			if pl, ok := c.(*ast.MsgPluralNode); ok {
				*out = append(*out, ("~" + pl.VarName + ",")...)
			}
		}
		*out = append(*out, ';')
	}
	if p, ok := n.(ast.ParentNode); ok {
		for _, c := range p.Children() {
			c13MsgIDs(c, out)
		}
	}
}

// c13Run compiles bundle t with its files added in the perm-th order and returns every
// observable result: decision + error text, message ids and placeholder names, rendered
// output of every parameterless entry point, generated JavaScript under both formatters.
func c13Run(t, perm int) (decision, errText, rest string) {
	files := c13Bundles[t]
	b := NewBundle()
	for _, i := range c13Perms[perm] {
		if i < len(files) {
			b.AddTemplateString(files[i].name, files[i].src)
		}
	}
	b.AddGlobalsMap(c13Globals)
	b.AddGlobalsMap(c13Globals2)
	reg, err := b.Compile()
	// compiling the same bundle again must give the same decision and error
	_, err2 := b.Compile()
	if (err == nil) != (err2 == nil) || (err != nil && err.Error() != err2.Error()) {
		return "unstable", "second Compile of the same bundle differs from the first", ""
	}
	if err != nil {
		return "reject", err.Error(), ""
	}
	var out []byte
	// by file name, so that the comparison does not depend on the insertion order (files added
	// without a name: by source text)
	for _, want := range files {
		for _, f := range reg.SoyFiles {
			if want.name != "" && f.Name != want.name {
				continue
			}
			if want.name == "" && f.Text != want.src {
				continue
			}
			out = append(out, ("#" + f.Name + "\n")...)
			c13MsgIDs(f, &out)
			for _, es6 := range []bool{false, true} {
				var buf bytes.Buffer
				opt := soyjs.Options{}
				if es6 {
					opt.Formatter = &soyjs.ES6Formatter{}
				}
				if err := soyjs.Write(&buf, f, opt); err != nil {
					out = append(out, ("jserr:" + err.Error())...)
				}
				out = append(out, buf.Bytes()...)
			}
		}
	}
	tofu, _ := b.CompileToTofu()
	for _, name := range []string{"a.t", "a.t2", "b.u", "b.w", "c.v"} {
		var buf bytes.Buffer
		rerr := tofu.Render(&buf, name, nil)
		_ = rerr
		rerr2 := tofu.NewRenderer(name).Execute(&buf, data.Map{"x": data.Map{"x": data.String("<")}, "m": data.Map{"x": data.Int(1), "y": data.Map{"x": data.Int(2)}}, "title": data.String("T")})
		out = append(out, ("@" + name + "=")...)
		out = append(out, buf.Bytes()...)
		if rerr2 != nil {
			out = append(out, ("!" + rerr2.Error())...)
		}
	}
	return "accept", "", string(out)
}

// H_bundle: compile + render + generate, under the file insertion order perm and an arbitrary
// iteration order of the map loop selected on the command line (-maporder), against the
// reference run (insertion order 0, no permutation).
func H_bundle(t, perm int) {
	d0, e0, r0 := c13Run(t, 0)
	verifMapOrder(verifMapOrderArg())
	verifSchedChoice() // the compared run also under the other run-queue discipline
	d1, e1, r1 := c13Run(t, perm)
	verifMapOrder("")
	verifObserve("decision", d0)
	verifObserve("err", e0)
	verifAssert(d0 != "unstable" && d1 != "unstable", "C13: compiling the same bundle twice gives different results")
	verifAssert(d0 == d1, "C13: accept/reject decision depends on iteration or file order")
	multi := t == 5 || t == 6 || t == 14 // several independent errors / duplicate names: which is reported first may depend on file order
	if !(multi && perm != 0) {
		verifAssert(e0 == e1, "C13: error text depends on iteration or file order")
		verifAssert(r0 == r1, "C13: message ids, rendered output or generated JavaScript depend on iteration or file order")
	}
}

func has13(s, sub string) bool {
	for i := 0; i+len(sub) <= len(s); i++ {
		if s[i:i+len(sub)] == sub {
			return true
		}
	}
	return false
}

// H_bundleFirst: bundle 17 as the first compilation of a process, its files added in order perm
// (whatever the process compiled before must not matter, so what the first compilation yields is
// what every compilation yields): the printed occurrence of $c[0] gets the fallback name of a
// print (XXX), the plural selector that of a plural (NUM), in either file order.
func H_bundleFirst(perm int) {
	d, e, r := c13Run(17, perm)
	verifObserve("err", e)
	verifAssert(d == "accept", "harness: bundle 17 is valid")
	verifObserve("ids", r)
	verifAssert(has13(r, ":XXX,;") && has13(r, ":~NUM,;"), "C13: placeholder names (and with them message ids) depend on the order in which files were compiled")
}
