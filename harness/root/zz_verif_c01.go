package soy

import (
	"bytes"

	"github.com/robfig/soy/data"
)

// positions in which a compile-time global may stand (G_I = 1, G_K = 'k', G_B = true)
var c01GlobalPos = []struct{ src, want string }{
	{"{G_I}", "1"},
	{"{$l[G_I]}", "B"},
	{"{$l?[G_I]}", "B"},
	{"{$l[G_I - 1]}", "A"},
	{"{$m[G_K]}", "V"},
	{"{$m?[G_K]}", "V"},
	{"{$r[G_I].name}", "N"},
	{"{$r[0][G_K]}", "W"},
	{"{let $q: [G_I, 5] /}{$q[G_I]}", "5"},
	{"{let $q: ['k': G_I] /}{$q[G_K]}", "1"},
	{"{G_B ? G_I : 0}", "1"},
	{"{if G_B and $l[G_I]}y{/if}", "y"},
	{"{min(G_I, 7)}", "1"},
	{"{$s|truncate:G_I}", "s"},
	{"{call .u}{param p: $l[G_I] /}{/call}", "B"},
	{"{let $v: $m[G_K] /}{$v}", "V"},
	{"{foreach $i in $l}{if index($i) == G_I}{$i}{/if}{/foreach}", "B"},
	{"{switch $l[G_I]}{case 'B'}b{default}d{/switch}", "b"},
	{"{msg desc=\"d\"}x{$l[G_I]}{/msg}", "xB"},
	{"{css $l[G_I], c}", "B-c"},
}

// H_globalIn (C01): a global used at position pos of an expression / command has its compile-time
// value there (the entries of $l, $m, $r are symbolic bytes so the expected text is the value
// the real data holds).
func H_globalIn(pos int) {
	b := NewBundle().AddGlobalsMap(data.Map{"G_I": data.Int(1), "G_K": data.String("k"), "G_B": data.Bool(true)})
	b.AddTemplateString("g.soy", "{namespace g}\n/** @param l\n @param m\n @param r\n @param s */\n{template .t autoescape=\"false\"}\n"+c01GlobalPos[pos].src+"{if false}{$l}{$m}{$r}{$s}{/if}\n{/template}\n/** @param p */\n{template .u autoescape=\"false\"}\n{$p}\n{/template}\n")
	tofu, err := b.CompileToTofu()
	if err != nil {
		verifAssert(false, "C01: an expression using a global was rejected: "+err.Error())
	}
	x := verifString(4)
	for i := 0; i < 4; i++ {
		verifAssume(x[i] >= 'a' && x[i] <= 'z')
	}
	sub := map[byte]string{'A': x[0:1], 'B': x[1:2], 'V': x[2:3], 'N': x[3:4], 'W': x[0:1]}
	m := data.Map{"l": data.List{data.String(x[0:1]), data.String(x[1:2])}, "m": data.Map{"k": data.String(x[2:3])},
		"r": data.List{data.Map{"k": data.String(x[0:1])}, data.Map{"name": data.String(x[3:4])}}, "s": data.String("stu")}
	want := ""
	for i := 0; i < len(c01GlobalPos[pos].want); i++ {
		c := c01GlobalPos[pos].want[i]
		if s, ok := sub[c]; ok {
			want += s
		} else {
			want += string(c)
		}
	}
	if c01GlobalPos[pos].src == "{switch $l[G_I]}{case 'B'}b{default}d{/switch}" {
		want = "d" // ($l[1] is a lower-case letter, never 'B')
	}
	var buf bytes.Buffer
	rerr := tofu.Render(&buf, "g.t", m)
	verifObserve("src", c01GlobalPos[pos].src)
	verifObserve("out", buf.String())
	verifAssert(rerr == nil, "C01: an expression using a global failed to render")
	verifAssert(buf.String() == want, "C01: a global does not have its compile-time value where it is used")
}
