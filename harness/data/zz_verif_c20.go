package data

var c20ListA = List{Int(1)}
var c20ListB = List{Int(1)}
var c20MapA = Map{"k": Int(1)}
var c20MapB = Map{"k": Int(1)}

// symVal: a Soy value whose kind is k and whose payload is symbolic.
func symVal(k int) Value {
	switch k {
	case 0:
		return Undefined{}
	case 1:
		return Null{}
	case 2:
		return Bool(verifBool())
	case 3:
		return Int(verifInt64())
	case 4:
		return Float(verifFloat64())
	case 5:
		return String(verifString(1))
	case 6:
		return String(verifString(0))
	case 7:
		return c20ListA
	case 8:
		return c20ListB
	case 9:
		return c20MapA
	case 10:
		return c20MapB
	}
	panic("kind")
}

const c20Kinds = 11

// H_equals: symmetry, numeric int/float comparison, reflexivity (except NaN), comparability by type.
func H_equals(ka, kb int) {
	a, b := symVal(ka), symVal(kb)
	ab, ba := a.Equals(b), b.Equals(a)
	verifAssert(ab == ba, "Equals is not symmetric")
	ai, aInt := a.(Int)
	af, aFloat := a.(Float)
	bi, bInt := b.(Int)
	bf, bFloat := b.(Float)
	switch {
	case aInt && bInt:
		verifAssert(ab == (ai == bi), "Int.Equals(Int) is not numeric equality")
	case aInt && bFloat:
		verifAssert(ab == (float64(ai) == float64(bf)), "Int.Equals(Float) is not numeric equality")
	case aFloat && bInt:
		verifAssert(ab == (float64(af) == float64(bi)), "Float.Equals(Int) is not numeric equality")
	case aFloat && bFloat:
		verifAssert(ab == (float64(af) == float64(bf)), "Float.Equals(Float) is not numeric equality")
	case aInt || aFloat || bInt || bFloat:
		verifAssert(!ab, "a number equals a non-number")
	}
	sameKind := ka == kb || (ka == 5 && kb == 6) || (ka == 6 && kb == 5)
	if !sameKind && !((aInt || aFloat) && (bInt || bFloat)) {
		lists := (ka == 7 || ka == 8) && (kb == 7 || kb == 8)
		maps := (ka == 9 || ka == 10) && (kb == 9 || kb == 10)
		if !lists && !maps {
			verifAssert(!ab, "values of different types are equal")
		} else {
			verifAssert(!ab, "distinct list/map instances are equal")
		}
	}
	// reflexivity
	aa := a.Equals(a)
	if aFloat {
		verifAssert(aa == (float64(af) == float64(af)), "Float reflexivity must follow IEEE (NaN != NaN)")
	} else {
		verifAssert(aa, "Equals is not reflexive")
	}
}

// H_truthy: the language's truthiness table.
func H_truthy(k int) {
	v := symVal(k)
	want := true
	switch x := v.(type) {
	case Undefined, Null:
		want = false
	case Bool:
		want = bool(x)
	case Int:
		want = x != 0
	case Float:
		f := float64(x)
		want = !(f == 0 || f != f) // 0.0, -0.0 and NaN are falsy
	case String:
		want = len(x) != 0
	}
	verifAssert(v.Truthy() == want, "Truthy disagrees with the language table (null, false, 0, 0.0, NaN, '' falsy)")
}

// H_index: List.Index / Map.Key return Undefined exactly when out of range / absent.
func H_index(n int) {
	l := make(List, n)
	for i := range l {
		l[i] = Int(i + 10)
	}
	i := verifInt()
	got := l.Index(i)
	if 0 <= i && i < n {
		verifAssert(got == Value(Int(i+10)), "List.Index returns the wrong element")
	} else {
		_, undef := got.(Undefined)
		verifAssert(undef, "List.Index out of range is not Undefined")
	}
	m := Map{"a": Int(1), "b": Null{}}
	k := verifString(1)
	gv := m.Key(k)
	_, undef := gv.(Undefined)
	verifAssert(undef == !(k == "a" || k == "b"), "Map.Key is Undefined for a present key or defined for an absent one")
}

// H_mapString: printing a map is the sorted "k: v" rendering under every iteration order (keys
// include a prefix pair and a pair that differs in letter case only).
func H_mapString(order bool) {
	a, b := verifString(1), verifString(1)
	m := Map{"b": String(a), "a": Bool(verifBool()), "c": String(b), "ab": Undefined{}, "B": Int(7)}
	if order {
		verifMapOrder("func:String")
	}
	got := m.String()
	verifMapOrder("")
	verifObserve("got", got)
	want := "{B: 7, a: " + m["a"].String() + ", ab: undefined, b: " + a + ", c: " + b + "}"
	verifAssert(got == want, "Map.String is not the sorted rendering")
	l := List{String(a), Int(1), Null{}, m["a"]}
	verifAssert(l.String() == "["+a+", 1, null, "+m["a"].String()+"]", "List.String")
}
