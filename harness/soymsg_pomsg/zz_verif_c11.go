package pomsg

import (
	"bytes"

	"strconv"

	"github.com/robfig/gettext/po"
	"github.com/robfig/soy/ast"
	"github.com/robfig/soy/data"
	"github.com/robfig/soy/parse"
	"github.com/robfig/soy/parsepasses"
	"github.com/robfig/soy/soyhtml"
	"github.com/robfig/soy/soymsg"
	"github.com/robfig/soy/template"
)

// a message is a list of segments: text, a print expression, or an html tag
type c11Seg struct {
	kind int // 0 text 1 print 2 tag
	src  string
}

var c11Msgs = [][]c11Seg{
	{{0, "Hello "}, {1, "$a"}, {0, "!"}},
	{{1, "$a"}, {0, " and "}, {1, "$b"}, {0, " and "}, {1, "$a"}},
	{{2, "<b>"}, {1, "$a"}, {2, "</b>"}, {0, " x "}, {2, "<i>"}, {1, "$b"}, {2, "</i>"}},
	{{1, "($a + 1) * 2"}, {0, " vs "}, {1, "$a + 1 * 2"}},
	{{1, "$a.x"}, {0, "-"}, {1, "$c.x"}, {0, "-"}, {1, "$x_1"}},
	{{0, "only text"}},
	{{1, "$b|escapeUri"}, {0, " / "}, {1, "$b"}, {0, " / "}, {1, "$b|noAutoescape"}, {0, " / "}, {1, "$b"}},
	{{2, "<a href=\"/x\">"}, {1, "$b"}, {2, "</a>"}, {0, " or "}, {2, "<a href=\"/y\">"}, {1, "$a"}, {2, "</a>"}},
	{{1, "$b|truncate:1"}, {0, " / "}, {1, "$b|truncate:4"}, {0, " / "}, {1, "$b|truncate:1"}},
	{{0, "set {lb}"}, {1, "$a"}, {0, ", "}, {1, "$b"}, {0, "{rb} {lb}{rb} end"}},
	{{2, "<paper-button raised>"}, {1, "$b"}, {2, "</paper-button>"}, {0, " "}, {2, "<svg:rect/>"}, {2, "<x_y>"}},
}

func c11MsgSrc(segs []c11Seg) string {
	s := ""
	for _, g := range segs {
		if g.kind == 1 {
			s += "{" + g.src + "}"
		} else {
			s += g.src
		}
	}
	return s
}

const c11Doc = "/** @param a\n @param b\n @param c\n @param x_1\n @param n\n @param l */\n"

func c11Compile(srcs ...string) *soyhtml.Tofu {
	reg := template.Registry{}
	for i, src := range srcs {
		f, err := parse.SoyFile("f"+string(rune('0'+i))+".soy", src)
		if err != nil {
			verifAssert(false, "harness: template does not parse: "+err.Error())
		}
		if err := reg.Add(f); err != nil {
			verifAssert(false, "harness: "+err.Error())
		}
	}
	parsepasses.ProcessMessages(reg)
	return soyhtml.NewTofu(&reg)
}

func c11Registry(src string) (*template.Registry, *soyhtml.Tofu) {
	reg := template.Registry{}
	f, err := parse.SoyFile("m.soy", src)
	if err != nil {
		verifAssert(false, "harness: template does not parse: "+err.Error())
	}
	if err := reg.Add(f); err != nil {
		verifAssert(false, "harness: "+err.Error())
	}
	parsepasses.ProcessMessages(reg)
	return &reg, soyhtml.NewTofu(&reg)
}

func c11Render(t *soyhtml.Tofu, name string, m data.Map, b soymsg.Bundle) (string, error) {
	var buf bytes.Buffer
	r := t.NewRenderer(name)
	if b != nil {
		r = r.WithMessages(b)
	}
	err := r.Execute(&buf, m)
	return buf.String(), err
}

func c11FindMsgs(n ast.Node, out *[]*ast.MsgNode) {
	if m, ok := n.(*ast.MsgNode); ok {
		*out = append(*out, m)
		return
	}
	if p, ok := n.(ast.ParentNode); ok {
		for _, c := range p.Children() {
			c11FindMsgs(c, out)
		}
	}
}

func c11Data() data.Map {
	a := verifInt()
	verifAssume(a >= 0 && a <= 2)
	b := verifString(1)
	verifAssume(b[0] >= 'a' && b[0] <= 'c' || b[0] == '<')
	return data.Map{"a": data.Map{"x": data.Int(a)}, "b": data.String(b), "c": data.Map{"x": data.String("C")}, "x_1": data.String("X"),
		"n": data.Int(a), "l": data.List{data.Int(1), data.Int(2)}}
}

func c11DataFlat() data.Map {
	a := verifInt()
	verifAssume(a >= 0 && a <= 2)
	b := verifString(1)
	verifAssume(b[0] >= 'a' && b[0] <= 'c' || b[0] == '<')
	return data.Map{"a": data.Int(a), "b": data.String(b), "c": data.Map{"x": data.String("C")}, "x_1": data.String("X"),
		"n": data.Int(a), "l": data.List{data.Int(1), data.Int(2)}}
}

type c11Bundle struct {
	bundle
}

// H_roundtrip: message msg of the dictionary inside context ctx (0 plain, 1 inside a foreach,
// 2 inside a called template, 3 inside the content block of a call param), catalogue cat: 0 identity, 1 reversed parts, 2 message absent.
func H_roundtrip(msg, ctx, cat int) {
	segs := c11Msgs[msg]
	m := "{msg desc=\"d\"}" + c11MsgSrc(segs) + "{/msg}"
	var src string
	switch ctx {
	case 0:
		src = "{namespace n}\n" + c11Doc + "{template .t}\n[" + m + "]{$n}{$l}{$a}{$b}{$c}{$x_1}\n{/template}\n"
	case 1:
		src = "{namespace n}\n" + c11Doc + "{template .t}\n{foreach $i in $l}{$i}:" + m + ";{/foreach}{$n}{$a}{$b}{$c}{$x_1}\n{/template}\n"
	case 3:
		// inside the content block of a call param
		src = "{namespace n}\n" + c11Doc + "{template .t}\n<{call .w}{param content}" + m + "{/param}{/call}>{$n}{$l}{$a}{$b}{$c}{$x_1}\n{/template}\n/** @param content */\n{template .w}\n({$content|noAutoescape})\n{/template}\n"
	case 2:
		src = "{namespace n}\n" + c11Doc + "{template .t}\n<{call .u data=\"all\" /}>\n{/template}\n" + c11Doc + "{template .u}\n" + m + "{$n}{$l}{$a}{$b}{$c}{$x_1}\n{/template}\n"
	}
	reg, tofu := c11Registry(src)
	var dm data.Map
	if msg == 4 {
		dm = c11Data()
	} else {
		dm = c11DataFlat()
	}
	plain, perr := c11Render(tofu, "n.t", dm, nil)
	verifAssert(perr == nil, "harness: render without catalogue failed")
	verifObserve("plain", plain)

	// extraction, as xgettext-soy does it
	var msgs []*ast.MsgNode
	for _, t := range reg.Templates {
		c11FindMsgs(t.Node, &msgs)
	}
	verifAssert(len(msgs) == 1, "harness: expected one message")
	node := msgs[0]
	verifAssert(Validate(node) == nil, "C11: extractable message rejected by Validate")
	id, msgid := node.ID, Msgid(node)
	verifObserve("msgid", msgid)

	b := &bundle{messages: map[uint64]soymsg.Message{}, locale: "xx", pluralize: func(n int) int { return 0 }}
	var wantParts []soymsg.Part
	switch cat {
	case 0:
		b.messages[id] = newMessage(id, "", []string{msgid})
	case 1:
		parts := soymsg.Parts(msgid)
		rev := ""
		for i := len(parts) - 1; i >= 0; i-- {
			switch p := parts[i].(type) {
			case soymsg.RawTextPart:
				rev += p.Text
			case soymsg.PlaceholderPart:
				rev += "{" + p.Name + "}"
			}
			wantParts = append(wantParts, parts[i])
		}
		b.messages[id] = newMessage(id, "", []string{rev})
	case 2:
		b.messages[id+1] = newMessage(id+1, "", []string{"other"})
	}
	got, err := c11Render(tofu, "n.t", dm, b)
	verifObserve("translated", got)
	verifAssert(err == nil, "C11: render with a catalogue failed")
	if cat != 1 {
		verifAssert(got == plain, "C11: identity translation / missing message does not render the source text")
		return
	}
	// reversed: every text segment and every placeholder's own live value, in reversed order.
	// each placeholder name maps to the segment(s) it was derived from, in order of appearance
	phSegs := map[string]string{}
	i := 0
	srcParts := soymsg.Parts(msgid)
	for _, p := range srcParts {
		for i < len(segs) && segs[i].kind == 0 {
			i++
		}
		if ph, ok := p.(soymsg.PlaceholderPart); ok {
			verifAssert(i < len(segs), "harness: more placeholders than segments")
			if prev, seen := phSegs[ph.Name]; seen {
				verifAssert(prev == segs[i].src, "C11: two different expressions share the placeholder "+ph.Name)
			}
			phSegs[ph.Name] = segs[i].src
			i++
		}
	}
	want := ""
	for _, p := range wantParts {
		switch p := p.(type) {
		case soymsg.RawTextPart:
			want += p.Text
		case soymsg.PlaceholderPart:
			seg := phSegs[p.Name]
			if len(seg) > 0 && seg[0] == '<' {
				want += seg
			} else {
				one := c11Compile("{namespace p}\n" + c11Doc + "{template .p}\n{" + seg + "}{$n}{$l}{$a}{$b}{$c}{$x_1}\n{/template}\n")
				full, e1 := c11Render(one, "p.p", dm, nil)
				tail := c11Compile("{namespace p}\n" + c11Doc + "{template .p}\n{$n}{$l}{$a}{$b}{$c}{$x_1}\n{/template}\n")
				rest, e2 := c11Render(tail, "p.p", dm, nil)
				verifAssert(e1 == nil && e2 == nil && len(full) >= len(rest), "harness: reference render failed")
				want += full[:len(full)-len(rest)]
			}
		}
	}
	// the message is embedded: compare through the no-catalogue rendering of the context
	switch ctx {
	case 0:
		verifAssert(got == "["+want+"]"+c11Rest(dm), "C11: a translation that reverses the parts does not reverse exactly their rendered values")
	default:
		verifAssert(c11Contains(got, want), "C11: a translation that reverses the parts does not reverse exactly their rendered values")
	}
}

// c11Rest: what the fixed trailer {$n}{$l}{$a}{$b}{$c}{$x_1} renders to.
func c11Rest(dm data.Map) string {
	t := c11Compile("{namespace p}\n" + c11Doc + "{template .p}\n{$n}{$l}{$a}{$b}{$c}{$x_1}\n{/template}\n")
	r, err := c11Render(t, "p.p", dm, nil)
	verifAssert(err == nil, "harness: trailer render failed")
	return r
}

func c11RestPlural(dm data.Map) string {
	t := c11Compile("{namespace p}\n" + c11Doc + "{template .p}\n{$l}{$a}{$c}{$x_1}{if $n}{/if}{if $b}{/if}\n{/template}\n")
	r, err := c11Render(t, "p.p", dm, nil)
	verifAssert(err == nil, "harness: trailer render failed")
	return r
}

func c11TailLen(s, sep string) int {
	for i := len(s) - 1; i >= 0; i-- {
		if s[i:i+1] == sep {
			return len(s) - i
		}
	}
	return 0
}

func c11Contains(s, sub string) bool {
	for i := 0; i+len(sub) <= len(s); i++ {
		if s[i:i+len(sub)] == sub {
			return true
		}
	}
	return false
}

// H_plural: a plural message ({case 1} + {default}) translated through a catalogue with nforms
// plural forms; the stub bundle's PluralCase returns an arbitrary index below nforms. The output
// is the rendering of exactly the selected form, with each placeholder's own value.
func H_plural(nforms int) {
	src := "{namespace n}\n" + c11Doc + "{template .t}\n[{msg desc=\"d\"}{plural $n}{case 1}one {$b}{default}{$n} of {$b}{/plural}{/msg}]{$l}{$a}{$c}{$x_1}\n{/template}\n"
	reg, tofu := c11Registry(src)
	dm := c11DataFlat()
	plain, perr := c11Render(tofu, "n.t", dm, nil)
	verifAssert(perr == nil, "harness: render without catalogue failed")
	var msgs []*ast.MsgNode
	for _, t := range reg.Templates {
		c11FindMsgs(t.Node, &msgs)
	}
	node := msgs[0]
	verifAssert(Validate(node) == nil, "C11: plural message rejected by Validate")
	plural := node.Body.Children()[0].(*ast.MsgPluralNode)
	sing, plur := Msgid(node), MsgidPlural(node)
	verifObserve("msgid", sing)
	verifObserve("msgid_plural", plur)
	forms := []string{"A:" + sing, "B:" + plur, "C:" + plur}[:nforms]
	idx := verifChoose(nforms)
	english := verifChoose(2) == 1
	b := &bundle{messages: map[uint64]soymsg.Message{}, locale: "xx", pluralize: func(n int) int {
		if english {
			if n == 1 || nforms == 1 {
				return 0
			}
			return 1
		}
		return idx
	}}
	b.messages[node.ID] = newMessage(node.ID, plural.VarName, forms)
	got, err := c11Render(tofu, "n.t", dm, b)
	verifObserve("translated", got)
	verifAssert(err == nil, "C11: render of a plural message with a catalogue failed")
	n := int(dm["n"].(data.Int))
	bs := string(dm["b"].(data.String))
	esc := bs
	if bs == "<" {
		esc = "&lt;"
	}
	sel := idx
	if english {
		sel = 1
		if n == 1 || nforms == 1 {
			sel = 0
		}
	}
	var body string
	if sel == 0 {
		body = "A:one " + esc
	} else {
		body = []string{"", "B:", "C:"}[sel] + string(rune('0'+n)) + " of " + esc
	}
	_ = plain
	verifAssert(got == "["+body+"]"+c11RestPlural(dm), "C11: the selected plural form is not rendered with the placeholders' own values")
}

// H_catalogue: a bundle with a plural message and plain messages, extracted the way xgettext-soy
// does (one PO entry per message with its "id=" and "var=" references), loaded through the real
// newBundle in the order given by perm, identity translations; the render with the catalogue must
// equal the render without.
func H_catalogue(perm int) {
	src := "{namespace n}\n" + c11Doc + "{template .t}\n" +
		"[{msg desc=\"p\"}{plural $n}{case 1}one {$b}{default}{$n} of {$b}{/plural}{/msg}]" +
		"[{msg desc=\"q\"}Hello {$b}!{/msg}][{msg desc=\"r\"}<b>{$a}</b> and {$b}{/msg}]{$l}{$c}{$x_1}\n{/template}\n"
	reg, tofu := c11Registry(src)
	dm := c11DataFlat()
	plain, perr := c11Render(tofu, "n.t", dm, nil)
	verifAssert(perr == nil, "harness: render without catalogue failed")
	verifObserve("plain", plain)
	var msgs []*ast.MsgNode
	for _, t := range reg.Templates {
		c11FindMsgs(t.Node, &msgs)
	}
	verifAssert(len(msgs) == 3, "harness: expected three messages")
	var entries []po.Message
	for _, node := range msgs {
		verifAssert(Validate(node) == nil, "C11: extractable message rejected by Validate")
		refs := []string{"id=" + strconv.FormatUint(node.ID, 10)}
		strs := []string{Msgid(node)}
		if pl, ok := node.Body.Children()[0].(*ast.MsgPluralNode); ok {
			refs = append(refs, "var="+pl.VarName)
			strs = append(strs, MsgidPlural(node))
		}
		entries = append(entries, po.Message{Comment: po.Comment{ExtractedComments: []string{node.Desc}, References: refs},
			Ctxt: node.Meaning, Id: Msgid(node), IdPlural: MsgidPlural(node), Str: strs})
	}
	orders := [][]int{{0, 1, 2}, {1, 0, 2}, {2, 1, 0}, {1, 2, 0}}
	var file po.File
	for _, i := range orders[perm] {
		file.Messages = append(file.Messages, entries[i])
	}
	file.Pluralize = func(n int) int {
		if n == 1 {
			return 0
		}
		return 1
	}
	b, err := newBundle("en", file)
	verifAssert(err == nil && b != nil, "C11: catalogue produced by the extractor does not load")
	got, rerr := c11Render(tofu, "n.t", dm, b)
	verifObserve("translated", got)
	verifAssert(rerr == nil, "C11: render with the identity catalogue failed")
	verifAssert(got == plain, "C11: identity catalogue does not render the source text")
}

// H_sameID: two messages with the same text and placeholder names (hence the same id) but
// different expressions, in one template; under the identity catalogue each renders its own
// expression.
func H_sameID(v int) {
	pairs := [][2]string{{"$a.x", "$c.x"}, {"$c.x", "$a.x"}, {"$c.x", "$c.x"}}
	e1, e2 := pairs[v][0], pairs[v][1]
	src := "{namespace n}\n" + c11Doc + "{template .t}\n{msg desc=\"d\"}Hello {" + e1 + "}!{/msg}|{msg desc=\"e\"}Hello {" + e2 + "}!{/msg}|{$n}{$l}{$a.x}{$b}{$c.x}{$x_1}\n{/template}\n"
	if v == 2 {
		// same base name X for both: $c.x and ... use field access on both sides
		src = "{namespace n}\n" + c11Doc + "{template .t}\n{msg desc=\"d\"}Hello {$c.x}!{/msg}|{foreach $i in $l}{msg desc=\"e\"}Hello {$c.x}!{/msg}{/foreach}|{$n}{$a.x}{$b}{$x_1}\n{/template}\n"
	}
	reg, tofu := c11Registry(src)
	dm := c11Data()
	plain, perr := c11Render(tofu, "n.t", dm, nil)
	verifAssert(perr == nil, "harness: render without catalogue failed")
	verifObserve("plain", plain)
	var msgs []*ast.MsgNode
	for _, t := range reg.Templates {
		c11FindMsgs(t.Node, &msgs)
	}
	b := &bundle{messages: map[uint64]soymsg.Message{}, locale: "xx", pluralize: func(n int) int { return 0 }}
	for _, node := range msgs {
		b.messages[node.ID] = newMessage(node.ID, "", []string{Msgid(node)})
	}
	got, err := c11Render(tofu, "n.t", dm, b)
	verifObserve("translated", got)
	verifAssert(err == nil, "C11: render with the identity catalogue failed")
	verifAssert(got == plain, "C11: identity catalogue does not render the source text (messages sharing an id)")
}

// H_distinctIDs: two messages of one template whose texts have the same length n and differ in
// their last character only (n runs over the block sizes of the fingerprint); under the identity
// catalogue, keyed by message id, each renders its own text.
func H_distinctIDs(n int) {
	pad := ""
	for i := 0; i+1 < n; i++ {
		pad += string(rune('a' + i%26))
	}
	src := "{namespace n}\n" + c11Doc + "{template .t}\n{msg desc=\"d\"}" + pad + "X{/msg}|{msg desc=\"e\"}" + pad + "Y{/msg}|{msg desc=\"f\"}{$b}" + pad + "{/msg}|{$n}{$l}{$a.x}{$b}{$c.x}{$x_1}\n{/template}\n"
	reg, tofu := c11Registry(src)
	dm := c11Data()
	plain, perr := c11Render(tofu, "n.t", dm, nil)
	verifAssert(perr == nil, "harness: render without catalogue failed")
	var msgs []*ast.MsgNode
	for _, t := range reg.Templates {
		c11FindMsgs(t.Node, &msgs)
	}
	b := &bundle{messages: map[uint64]soymsg.Message{}, locale: "xx", pluralize: func(n int) int { return 0 }}
	for _, node := range msgs {
		b.messages[node.ID] = newMessage(node.ID, "", []string{Msgid(node)})
	}
	verifAssert(len(b.messages) == len(msgs), "C11: two different messages share one id (their catalogue entries overwrite each other)")
	got, err := c11Render(tofu, "n.t", dm, b)
	verifAssert(err == nil, "C11: render with the identity catalogue failed")
	verifAssert(got == plain, "C11: identity catalogue does not render the source text")
}

// H_pluralCases: plural messages with other case sets than {case 1}{default} (a further explicit
// case before or after, no {case 1}, only a default). Whatever the extractor decides about them
// (Validate may refuse what a PO entry cannot represent), a message it accepts renders through
// the identity catalogue, under the English plural rule, exactly what it renders from the source,
// for every n in 0..3.
func H_pluralCases(v int) {
	bodies := []string{
		"{case 0}none for {$b}{case 1}one for {$b}{case 2}a pair for {$b}{default}{$n} for {$b}",
		"{case 1}one{case 2}two{default}{$n} many",
		"{case 0}zero{default}{$n} some",
		"{default}{$n} any of {$b}",
		"{case 1}one {$b}{default}{$n} of {$b}",
	}
	src := "{namespace n}\n" + c11Doc + "{template .t}\n[{msg desc=\"d\"}{plural $n}" + bodies[v] + "{/plural}{/msg}]{$l}{$a}{$c}{$x_1}\n{/template}\n"
	reg, tofu := c11Registry(src)
	n := verifChoose(4)
	bs := verifString(1)
	verifAssume(bs[0] >= 'a' && bs[0] <= 'c' || bs[0] == '<')
	dm := data.Map{"a": data.Int(1), "b": data.String(bs), "c": data.Map{"x": data.String("C")}, "x_1": data.String("X"), "n": data.Int(int64(n)), "l": data.List{data.Int(1)}}
	plain, perr := c11Render(tofu, "n.t", dm, nil)
	verifAssert(perr == nil, "harness: render without catalogue failed")
	var msgs []*ast.MsgNode
	for _, t := range reg.Templates {
		c11FindMsgs(t.Node, &msgs)
	}
	node := msgs[0]
	if Validate(node) != nil {
		verifObserve("extractable", "no")
		return
	}
	verifObserve("extractable", "yes")
	plural := node.Body.Children()[0].(*ast.MsgPluralNode)
	b := &bundle{messages: map[uint64]soymsg.Message{}, locale: "en", pluralize: func(n int) int {
		if n == 1 {
			return 0
		}
		return 1
	}}
	b.messages[node.ID] = newMessage(node.ID, plural.VarName, []string{Msgid(node), MsgidPlural(node)})
	got, err := c11Render(tofu, "n.t", dm, b)
	verifObserve("translated", got)
	verifAssert(err == nil, "C11: render of an extractable plural message with its identity catalogue failed")
	verifAssert(got == plain, "C11: identity translation of a plural message does not render the source text")
}

// H_catalogueTr: the catalogue of H_catalogue with some forms really translated (marked by a
// prefix) and the others repeating their source text: bit 0 of mask the singular form of the plural
// message, bit 1 its other form, bit 2 the plain message "Hello". Loaded through newBundle. Every
// form renders what its catalogue entry says: the marked text where it is translated, the source
// text where it is not, for n = 1 and n = 5.
func H_catalogueTr(mask, n int) {
	src := "{namespace n}\n" + c11Doc + "{template .t}\n" +
		"[{msg desc=\"p\"}{plural $n}{case 1}one {$b}{default}{$n} of {$b}{/plural}{/msg}]" +
		"[{msg desc=\"q\"}Hello {$b}!{/msg}]{$l}{$a}{$c}{$x_1}\n{/template}\n"
	reg, tofu := c11Registry(src)
	dm := c11DataFlat()
	dm["n"] = data.Int(int64(n))
	plain, perr := c11Render(tofu, "n.t", dm, nil)
	verifAssert(perr == nil, "harness: render without catalogue failed")
	var msgs []*ast.MsgNode
	for _, t := range reg.Templates {
		c11FindMsgs(t.Node, &msgs)
	}
	verifAssert(len(msgs) == 2, "harness: expected two messages")
	mark := func(bit int, s string) string {
		if mask&(1<<uint(bit)) != 0 {
			return "T:" + s
		}
		return s
	}
	var file po.File
	for _, node := range msgs {
		refs := []string{"id=" + strconv.FormatUint(node.ID, 10)}
		var strs []string
		if pl, ok := node.Body.Children()[0].(*ast.MsgPluralNode); ok {
			refs = append(refs, "var="+pl.VarName)
			strs = []string{mark(0, Msgid(node)), mark(1, MsgidPlural(node))}
		} else {
			strs = []string{mark(2, Msgid(node))}
		}
		file.Messages = append(file.Messages, po.Message{Comment: po.Comment{References: refs},
			Id: Msgid(node), IdPlural: MsgidPlural(node), Str: strs})
	}
	file.Pluralize = func(n int) int {
		if n == 1 {
			return 0
		}
		return 1
	}
	b, err := newBundle("it", file)
	verifAssert(err == nil && b != nil, "C11: catalogue does not load")
	got, rerr := c11Render(tofu, "n.t", dm, b)
	verifObserve("translated", got)
	verifAssert(rerr == nil, "C11: render with the catalogue failed")
	// expected: the source render with the mark in front of every translated form in use
	want, seg := "", 0
	for i := 0; i < len(plain); i++ {
		want += plain[i : i+1]
		if plain[i] == '[' {
			switch {
			case seg == 0 && n == 1:
				want += mark(0, "")
			case seg == 0:
				want += mark(1, "")
			case seg == 1:
				want += mark(2, "")
			}
			seg++
		}
	}
	verifAssert(got == want, "C11: a catalogue entry is not rendered as the catalogue says (translated form lost or source form altered)")
}
