package parse

import (
	"unicode/utf8"

	"github.com/robfig/soy/ast"
)

// c17Leaf: leaf expressions; strings carry symbolic bytes quoted with the real quoteString.
func c17Leaf(k int) ast.Node {
	switch k {
	case 0:
		return &ast.IntNode{Value: 0}
	case 1:
		return &ast.IntNode{Value: -1}
	case 2:
		return &ast.IntNode{Value: 1 << 53}
	case 3:
		return &ast.FloatNode{Value: 0.5}
	case 4:
		return &ast.FloatNode{Value: -2.0}
	case 5:
		return &ast.FloatNode{Value: 1e21}
	case 6:
		return &ast.FloatNode{Value: 6.02e-23}
	case 7:
		return &ast.BoolNode{True: true}
	case 8:
		return &ast.NullNode{}
	case 9:
		s := verifString(1)
		verifAssume(s[0] < 0x80) // source text is UTF-8; a 1-byte string is ASCII
		return &ast.StringNode{Quoted: quoteString(s), Value: s}
	case 10:
		return &ast.DataRefNode{Key: "a"}
	case 11:
		return &ast.DataRefNode{Key: "a", Access: []ast.Node{&ast.DataRefKeyNode{Key: "b"}, &ast.DataRefIndexNode{NullSafe: true, Index: 2},
			&ast.DataRefExprNode{Arg: &ast.IntNode{Value: 1}}, &ast.DataRefKeyNode{NullSafe: true, Key: "c"}}}
	case 12:
		return &ast.GlobalNode{Name: "GLOBAL_X"}
	case 13:
		return &ast.FunctionNode{Name: "f", Args: []ast.Node{&ast.IntNode{Value: 1}, &ast.DataRefNode{Key: "b"}}}
	case 14:
		return &ast.ListLiteralNode{Items: []ast.Node{&ast.IntNode{Value: 1}, &ast.StringNode{Quoted: "'x'", Value: "x"}}}
	case 15:
		return &ast.MapLiteralNode{Items: map[string]ast.Node{"k": &ast.IntNode{Value: 1}, "j": &ast.NullNode{}}}
	case 18:
		k := verifString(1)
		verifAssume(k[0] < 0x80)
		return &ast.MapLiteralNode{Items: map[string]ast.Node{k: &ast.IntNode{Value: 1}, "zz": &ast.IntNode{Value: 2}}}
	case 19:
		fs := []float64{1e19, -2e19, 1e20, 9.223372036854775808e18, 1.8446744073709552e19, 123456789012.0, 1e15, 1e16, 0.1, 1e-7, 1e-5, 1.7976931348623157e308, 5e-324, 100.0, 1e22, 3.0e10}
		return &ast.FloatNode{Value: fs[verifChoose(len(fs))]}
	case 16:
		return &ast.ListLiteralNode{}
	case 17:
		return &ast.MapLiteralNode{}
	}
	panic("leaf")
}

const c17Leaves = 19

// c17Op: operator node op over x (and y, z); 0..13 binary (c01Ops), 14 negate, 15 not, 16 ternary.
func c17Op(op int, x, y, z ast.Node) ast.Node {
	switch {
	case op < 14:
		n := c01Mk(op, x, y)
		setOpName(n, c01Ops[op])
		return n
	case op == 14:
		return &ast.NegateNode{Arg: x}
	case op == 15:
		return &ast.NotNode{Arg: x}
	}
	return &ast.TernNode{Arg1: x, Arg2: y, Arg3: z}
}

// setOpName fills BinaryOpNode.Name the way the parser does (String prints it).
func setOpName(n ast.Node, name string) {
	switch n := n.(type) {
	case *ast.MulNode:
		n.Name = name
	case *ast.DivNode:
		n.Name = name
	case *ast.ModNode:
		n.Name = name
	case *ast.AddNode:
		n.Name = name
	case *ast.SubNode:
		n.Name = name
	case *ast.EqNode:
		n.Name = name
	case *ast.NotEqNode:
		n.Name = name
	case *ast.LtNode:
		n.Name = name
	case *ast.LteNode:
		n.Name = name
	case *ast.GtNode:
		n.Name = name
	case *ast.GteNode:
		n.Name = name
	case *ast.AndNode:
		n.Name = name
	case *ast.OrNode:
		n.Name = name
	case *ast.ElvisNode:
		n.Name = name
	}
}

func c17Check(n ast.Node) {
	src := n.String()
	verifObserve("src", src)
	got, err := Expr(src)
	verifAssert(err == nil, "printed expression does not parse")
	verifAssert(sameTree(got, n), "printed expression parses to a different tree")
}

// c17Wrap places n under a unary operator, inside an index, a call, a list or a map literal.
func c17Wrap(n ast.Node, wrap int) ast.Node {
	switch wrap {
	case 1:
		return &ast.NegateNode{Arg: n}
	case 2:
		return &ast.NotNode{Arg: n}
	case 3:
		return &ast.DataRefNode{Key: "d", Access: []ast.Node{&ast.DataRefExprNode{Arg: n}}}
	case 4:
		return &ast.FunctionNode{Name: "g", Args: []ast.Node{n}}
	case 5:
		return &ast.ListLiteralNode{Items: []ast.Node{n, n}}
	case 6:
		return &ast.MapLiteralNode{Items: map[string]ast.Node{"k": n}}
	case 7:
		return &ast.DataRefNode{Key: "d", Access: []ast.Node{&ast.DataRefKeyNode{Key: "k"}, &ast.DataRefExprNode{NullSafe: true, Arg: n}, &ast.DataRefIndexNode{Index: 1}}}
	}
	return n
}

// H_roundLeaf: every leaf, alone and under each unary operator / inside each bracketing construct.
func H_roundLeaf(k, wrap int) { c17Check(c17Wrap(c17Leaf(k), wrap)) }

// H_roundWrapOp: every operator (over $x, 2, $y) inside each bracketing construct, and a string
// leaf holding a symbolic byte as an operand of it.
func H_roundWrapOp(o, wrap int) {
	var x ast.Node = dref("x")
	if o%2 == 1 {
		x = c17Leaf(9)
	}
	c17Check(c17Wrap(c17Op(o, x, &ast.IntNode{Value: 2}, dref("y")), wrap))
}

// H_roundStr: a string literal (site 0), a map key (site 1) or both in one map entry (site 2)
// whose n bytes are any valid UTF-8 (1- to 4-byte sequences, control, non-printing and
// supplementary-plane characters included).
func H_roundStr(site, n int) {
	s := verifString(n)
	verifAssume(utf8.ValidString(s))
	var node ast.Node
	switch site {
	case 0:
		node = &ast.StringNode{Quoted: quoteString(s), Value: s}
	case 1:
		node = &ast.MapLiteralNode{Items: map[string]ast.Node{s: &ast.IntNode{Value: 1}}}
	default:
		node = &ast.MapLiteralNode{Items: map[string]ast.Node{s: &ast.StringNode{Quoted: quoteString(s), Value: s}}}
	}
	c17Check(node)
}

// H_roundOps: outer operator o over an inner operator i placed in position pos (0 left/only,
// 1 right/second, 2 third), the other operands being $a, 1, $b.
func H_roundOps(o, i, pos int) {
	a, one, b := ast.Node(dref("a")), ast.Node(&ast.IntNode{Value: 1}), ast.Node(dref("b"))
	inner := c17Op(i, dref("x"), &ast.IntNode{Value: 2}, dref("y"))
	ops := []ast.Node{a, one, b}
	arity := 2
	if o == 14 || o == 15 {
		arity = 1
	} else if o == 16 {
		arity = 3
	}
	if pos >= arity {
		return
	}
	ops[pos] = inner
	c17Check(c17Op(o, ops[0], ops[1], ops[2]))
}

// H_roundPrint: the print command form {expr|dir:args} through SoyFile.
func H_roundPrint(k, d int) {
	arg := c17Leaf(k)
	var dirs []*ast.PrintDirectiveNode
	switch d {
	case 1:
		dirs = []*ast.PrintDirectiveNode{{Name: "noAutoescape"}}
	case 2:
		dirs = []*ast.PrintDirectiveNode{{Name: "truncate", Args: []ast.Node{&ast.IntNode{Value: -1}, &ast.BoolNode{True: true}}}, {Name: "id"}}
	case 3:
		dirs = []*ast.PrintDirectiveNode{{Name: "insertWordBreaks", Args: []ast.Node{c01Mk(3, &ast.IntNode{Value: 1}, &ast.IntNode{Value: 2})}}}
		setOpName(dirs[0].Args[0], "+")
	}
	p := &ast.PrintNode{Arg: arg, Directives: dirs}
	src := "{namespace n}\n/** */\n{template .t}\n" + p.String() + "\n{/template}\n"
	verifObserve("print", p.String())
	f, err := SoyFile("p.soy", src)
	verifAssert(err == nil, "printed print command does not parse")
	var got *ast.PrintNode
	for _, n := range f.Body {
		if t, ok := n.(*ast.TemplateNode); ok && len(t.Body.Nodes) == 1 {
			got, _ = t.Body.Nodes[0].(*ast.PrintNode)
		}
	}
	verifAssert(got != nil && sameTree(got.Arg, arg) && len(got.Directives) == len(dirs), "print command parses to a different tree")
	for i := range dirs {
		verifAssert(got.Directives[i].Name == dirs[i].Name && len(got.Directives[i].Args) == len(dirs[i].Args), "print directive differs")
		for j := range dirs[i].Args {
			verifAssert(sameTree(got.Directives[i].Args[j], dirs[i].Args[j]), "print directive argument differs")
		}
	}
}

// c17Operand: operand spellings that end or start with tokens the lexer treats specially
// (null-safe accesses, brackets, signs, literals, identifiers).
func c17Operand(k int) ast.Node {
	switch k {
	case 0:
		return &ast.DataRefNode{Key: "a", Access: []ast.Node{&ast.DataRefIndexNode{NullSafe: true, Index: 0}}}
	case 1:
		return &ast.DataRefNode{Key: "a", Access: []ast.Node{&ast.DataRefIndexNode{Index: 0}}}
	case 2:
		return &ast.DataRefNode{Key: "a", Access: []ast.Node{&ast.DataRefKeyNode{NullSafe: true, Key: "b"}}}
	case 3:
		return &ast.DataRefNode{Key: "a", Access: []ast.Node{&ast.DataRefExprNode{Arg: &ast.IntNode{Value: 0}}}}
	case 4:
		return &ast.DataRefNode{Key: "a", Access: []ast.Node{&ast.DataRefExprNode{NullSafe: true, Arg: dref("i")}}}
	case 5:
		return &ast.FunctionNode{Name: "f", Args: []ast.Node{&ast.IntNode{Value: 1}}}
	case 6:
		return &ast.ListLiteralNode{Items: []ast.Node{&ast.IntNode{Value: 1}}}
	case 7:
		return &ast.StringNode{Quoted: "'s'", Value: "s"}
	case 8:
		return &ast.IntNode{Value: -1}
	case 9:
		return &ast.FloatNode{Value: 1.5}
	case 10:
		return &ast.NullNode{}
	case 11:
		return &ast.BoolNode{True: true}
	case 12:
		return &ast.GlobalNode{Name: "G.X"}
	case 13:
		return &ast.DataRefNode{Key: "ij", Access: []ast.Node{&ast.DataRefKeyNode{Key: "x"}}}
	case 14:
		return &ast.NegateNode{Arg: dref("a")}
	case 15:
		return &ast.MapLiteralNode{Items: map[string]ast.Node{"k": &ast.IntNode{Value: 1}}}
	}
	return dref("a")
}

// H_roundOperands: every operator over every pair of operand spellings (third operand $z).
func H_roundOperands(o, l, r int) {
	c17Check(c17Op(o, c17Operand(l), c17Operand(r), dref("z")))
}

// H_roundChain: a flat chain of n operands under one binary operator (left-nested, as the parser
// builds it for a long sum or conjunction) and a chain of n accesses on one reference.
func H_roundChain(o, n int) {
	var e ast.Node = dref("p0")
	for i := 1; i < n; i++ {
		e = c17Op(o, e, dref("p"), nil)
	}
	c17Check(e)
	var acc []ast.Node
	for i := 0; i < n; i++ {
		acc = append(acc, &ast.DataRefKeyNode{Key: "k"})
	}
	c17Check(&ast.DataRefNode{Key: "a", Access: acc})
}

// H_roundPrintOps: a print command whose expression is operator o over operator i (in operand
// position pos) - such commands start with a parenthesis, a sign or a keyword when printed.
func H_roundPrintOps(o, i, pos int) {
	inner := c17Op(i, dref("x"), &ast.IntNode{Value: 2}, dref("y"))
	ops := []ast.Node{dref("a"), &ast.IntNode{Value: 1}, dref("b")}
	arity := 2
	if o == 14 || o == 15 {
		arity = 1
	} else if o == 16 {
		arity = 3
	}
	if pos >= arity {
		return
	}
	ops[pos] = inner
	p := &ast.PrintNode{Arg: c17Op(o, ops[0], ops[1], ops[2])}
	src := "{namespace n}\n/** */\n{template .t}\n" + p.String() + "\n{/template}\n"
	verifObserve("print", p.String())
	f, err := SoyFile("p.soy", src)
	verifAssert(err == nil, "printed print command does not parse")
	var got *ast.PrintNode
	for _, n := range f.Body {
		if t, ok := n.(*ast.TemplateNode); ok && len(t.Body.Nodes) == 1 {
			got, _ = t.Body.Nodes[0].(*ast.PrintNode)
		}
	}
	verifAssert(got != nil && sameTree(got.Arg, p.Arg), "printed print command parses to a different tree")
}

// c17Words: every word the lexer treats specially (command names, operator words, literals; copied
// from builtinIdents) and an ordinary identifier.
var c17WordList = []string{"alias", "and", "call", "case", "css", "debugger", "default", "else", "elseif", "f", "false", "for", "foreach", "if", "ifempty", "in", "lb", "let", "literal", "log", "msg", "namespace", "nil", "not", "null", "or", "param", "plural", "print", "rb", "sp", "switch", "template", "true"}

func c17Words() []string { return c17WordList }

var c17ParsedShapes = []string{
	"{print W($x)}",
	"{print W($x) + 1|id}",
	"{print W($x, 'none')}",
	"{print 1 + W($x)}",
	"{print [W($x)]}",
	"{print -W($x)}",
	"{W($x)}",
	"{print W}",
	"{print W.a}",
	"{print $x.W}",
	"{print $x?.W}",
}

// H_roundParsed: starts from source text, not from a constructed tree: a print command whose
// expression uses the w-th special word as a function name, global or key in one of the shapes
// above. Where the parser accepts the command as a print, the text it prints for it must parse
// back to the same print command (whatever the parser rejects is outside the property).
func H_roundParsed(w, shape int) {
	ws := c17Words()
	if w >= len(ws) {
		return
	}
	cmd := ""
	for _, c := range []byte(c17ParsedShapes[shape]) {
		if c == 'W' {
			cmd += ws[w]
		} else {
			cmd += string(c)
		}
	}
	parsePrint := func(cmd string) (*ast.PrintNode, bool, error) {
		f, err := SoyFile("p.soy", "{namespace n}\n/** @param x */\n{template .t}\n"+cmd+"\n{/template}\n")
		if err != nil {
			return nil, false, err
		}
		for _, n := range f.Body {
			if t, ok := n.(*ast.TemplateNode); ok && len(t.Body.Nodes) == 1 {
				p, ok := t.Body.Nodes[0].(*ast.PrintNode)
				return p, ok, nil
			}
		}
		return nil, false, nil
	}
	verifObserve("cmd", cmd)
	p, isPrint, err := parsePrint(cmd)
	if err != nil || !isPrint {
		return
	}
	verifObserve("print", p.String())
	got, isPrint2, err := parsePrint(p.String())
	verifAssert(err == nil, "printed print command does not parse")
	verifAssert(isPrint2 && got != nil && sameTree(got.Arg, p.Arg) && len(got.Directives) == len(p.Directives), "printed print command parses to a different tree")
}
