package parse

func isWS(c byte) bool { return c == ' ' || c == '\t' || c == '\r' || c == '\n' }
func isNL(c byte) bool { return c == '\r' || c == '\n' }
func isTJ(c byte) bool { return c == '<' || c == '>' }

// refRawtext is the line-joining rule written as a specification over runs.
func refRawtext(s string, trimBefore, trimAfter bool) string {
	var out []byte
	i := 0
	n := len(s)
	for i < n {
		if !isWS(s[i]) {
			out = append(out, s[i])
			i++
			continue
		}
		j := i
		nl := false
		for j < n && isWS(s[j]) {
			if isNL(s[j]) {
				nl = true
			}
			j++
		}
		atStart, atEnd := i == 0, j == n
		switch {
		case atStart && atEnd:
			if !nl && !trimBefore && !trimAfter {
				out = append(out, s[i:j]...)
			}
		case atStart:
			if !nl && !trimBefore {
				out = append(out, s[i:j]...)
			}
		case atEnd:
			if !nl && !trimAfter {
				out = append(out, s[i:j]...)
			}
		default:
			if !nl {
				out = append(out, s[i:j]...)
			} else if !isTJ(s[i-1]) && !isTJ(s[j]) {
				out = append(out, ' ')
			}
		}
		i = j
	}
	return string(out)
}

// H_rawtext: rawtext == line-joining rule on every ASCII string of length n, both trim flags.
func H_rawtext(n int) {
	s := verifString(n)
	for i := 0; i < len(s); i++ {
		verifAssume(s[i] < 0x80 && s[i] != 0)
	}
	tb, ta := verifBool(), verifBool()
	got := string(rawtext(s, tb, ta))
	want := refRawtext(s, tb, ta)
	verifObserve("s", s)
	verifObserve("got", got)
	verifAssert(got == want, "rawtext differs from the line-joining spec")
}

// H_rawtextBytes: non-whitespace bytes survive in order, all 256 byte values.
func H_rawtextBytes(n int) {
	s := verifString(n)
	tb, ta := verifBool(), verifBool()
	got := rawtext(s, tb, ta)
	// every non-whitespace byte survives in order
	j := 0
	for i := 0; i < len(s); i++ {
		if isWS(s[i]) {
			continue
		}
		for j < len(got) && isWS(got[j]) {
			j++
		}
		verifAssert(j < len(got) && got[j] == s[i], "non-whitespace byte lost or reordered")
		j++
	}
}
