package parse

import (
	"strconv"

	"github.com/robfig/soy/ast"
)

// ---- unary/binary minus: one step of the lexer from an arbitrary previous token ----

// operandEnd: token types after which an operand is complete, so a following '-' is binary.
func operandEnd(t itemType) bool {
	switch t {
	case itemNull, itemBool, itemInteger, itemFloat, itemString, itemIdent, itemDollarIdent, itemDotIdent,
		itemQuestionDotIdent, itemDotIndex, itemQuestionDotIndex, itemRightBracket, itemRightParen:
		return true
	}
	return false
}

// cannotPrecedeMinus: token types that never directly precede '-' inside a tag in any
// well-formed or ill-formed input the parser accepts further (don't care).
func minusDontCare(t itemType) bool {
	switch t {
	case itemEOF, itemError, itemRightDelim, itemRightDelimEnd, itemText, itemSoyDocStart, itemSoyDocParam,
		itemSoyDocOptionalParam, itemSoyDocEnd, itemComment, itemHeaderParamType, itemCommand, itemCommandEnd, itemSpecialChar:
		return true
	}
	return t >= itemCommandEnd || t == itemLiteral || t == itemCss
}

// H_minus: lexNegative with lastEmit.typ = T symbolic; next input is a digit (digit=true) or '$a'.
func H_minus(digit bool) {
	T := itemType(verifInt())
	verifAssume(T >= 0 && T <= itemLogEnd)
	verifAssume(!minusDontCare(T))
	in := "-$a}"
	if digit {
		in = "-1}"
	}
	l := &lexer{input: in, items: make(chan item, 4), lastEmit: item{typ: T}}
	l.next() // the '-' has been read by lexInsideTag
	next := lexNegative(l)
	var got itemType
	if len(l.items) > 0 {
		got = (<-l.items).typ
	} else {
		// negative number: lexNumber emits it
		verifAssert(next != nil, "harness: no token and no next state")
		next(l)
		verifAssert(len(l.items) > 0, "harness: lexNumber emitted nothing")
		tok := <-l.items
		got = tok.typ
		verifAssert(got == itemInteger && tok.val == "-1", "negative literal token")
		got = itemNegate
	}
	verifObserveInt("T", int(T))
	if operandEnd(T) {
		verifAssert(got == itemSub, "'-' after a complete operand must be the binary operator")
	} else {
		verifAssert(got == itemNegate, "'-' where an operand must start must be unary")
	}
}

// ---- precedence / associativity: parse tree shape of a op1 b op2 c ----

var c01Ops = []string{"*", "/", "%", "+", "-", "<", "<=", ">", ">=", "==", "!=", "and", "or", "?:"}

// language precedence, higher binds tighter (unary = 8)
var c01Prec = []int{7, 7, 7, 6, 6, 5, 5, 5, 5, 4, 4, 3, 2, 1}

func c01Mk(op int, x, y ast.Node) ast.Node {
	b := ast.BinaryOpNode{Arg1: x, Arg2: y}
	switch c01Ops[op] {
	case "*":
		return &ast.MulNode{b}
	case "/":
		return &ast.DivNode{b}
	case "%":
		return &ast.ModNode{b}
	case "+":
		return &ast.AddNode{b}
	case "-":
		return &ast.SubNode{b}
	case "<":
		return &ast.LtNode{b}
	case "<=":
		return &ast.LteNode{b}
	case ">":
		return &ast.GtNode{b}
	case ">=":
		return &ast.GteNode{b}
	case "==":
		return &ast.EqNode{b}
	case "!=":
		return &ast.NotEqNode{b}
	case "and":
		return &ast.AndNode{b}
	case "or":
		return &ast.OrNode{b}
	case "?:":
		return &ast.ElvisNode{b}
	}
	panic("op")
}

// sameTree: structural equality of expression trees ignoring positions and operator names.
func sameTree(x, y ast.Node) bool {
	switch a := x.(type) {
	case *ast.DataRefNode:
		b, ok := y.(*ast.DataRefNode)
		if !ok || a.Key != b.Key || len(a.Access) != len(b.Access) {
			return false
		}
		for i := range a.Access {
			if !sameTree(a.Access[i], b.Access[i]) {
				return false
			}
		}
		return true
	case *ast.DataRefIndexNode:
		b, ok := y.(*ast.DataRefIndexNode)
		return ok && a.NullSafe == b.NullSafe && a.Index == b.Index
	case *ast.DataRefKeyNode:
		b, ok := y.(*ast.DataRefKeyNode)
		return ok && a.NullSafe == b.NullSafe && a.Key == b.Key
	case *ast.DataRefExprNode:
		b, ok := y.(*ast.DataRefExprNode)
		return ok && a.NullSafe == b.NullSafe && sameTree(a.Arg, b.Arg)
	case *ast.IntNode:
		b, ok := y.(*ast.IntNode)
		return ok && a.Value == b.Value
	case *ast.FloatNode:
		b, ok := y.(*ast.FloatNode)
		return ok && a.Value == b.Value
	case *ast.StringNode:
		b, ok := y.(*ast.StringNode)
		return ok && a.Value == b.Value
	case *ast.BoolNode:
		b, ok := y.(*ast.BoolNode)
		return ok && a.True == b.True
	case *ast.NullNode:
		_, ok := y.(*ast.NullNode)
		return ok
	case *ast.GlobalNode:
		b, ok := y.(*ast.GlobalNode)
		return ok && a.Name == b.Name
	case *ast.FunctionNode:
		b, ok := y.(*ast.FunctionNode)
		if !ok || a.Name != b.Name || len(a.Args) != len(b.Args) {
			return false
		}
		for i := range a.Args {
			if !sameTree(a.Args[i], b.Args[i]) {
				return false
			}
		}
		return true
	case *ast.ListLiteralNode:
		b, ok := y.(*ast.ListLiteralNode)
		if !ok || len(a.Items) != len(b.Items) {
			return false
		}
		for i := range a.Items {
			if !sameTree(a.Items[i], b.Items[i]) {
				return false
			}
		}
		return true
	case *ast.MapLiteralNode:
		b, ok := y.(*ast.MapLiteralNode)
		if !ok || len(a.Items) != len(b.Items) {
			return false
		}
		for k, v := range a.Items {
			w, ok := b.Items[k]
			if !ok || !sameTree(v, w) {
				return false
			}
		}
		return true
	case *ast.NotNode:
		b, ok := y.(*ast.NotNode)
		return ok && sameTree(a.Arg, b.Arg)
	case *ast.NegateNode:
		b, ok := y.(*ast.NegateNode)
		return ok && sameTree(a.Arg, b.Arg)
	case *ast.TernNode:
		b, ok := y.(*ast.TernNode)
		return ok && sameTree(a.Arg1, b.Arg1) && sameTree(a.Arg2, b.Arg2) && sameTree(a.Arg3, b.Arg3)
	case *ast.MulNode:
		b, ok := y.(*ast.MulNode)
		return ok && sameTree(a.Arg1, b.Arg1) && sameTree(a.Arg2, b.Arg2)
	case *ast.DivNode:
		b, ok := y.(*ast.DivNode)
		return ok && sameTree(a.Arg1, b.Arg1) && sameTree(a.Arg2, b.Arg2)
	case *ast.ModNode:
		b, ok := y.(*ast.ModNode)
		return ok && sameTree(a.Arg1, b.Arg1) && sameTree(a.Arg2, b.Arg2)
	case *ast.AddNode:
		b, ok := y.(*ast.AddNode)
		return ok && sameTree(a.Arg1, b.Arg1) && sameTree(a.Arg2, b.Arg2)
	case *ast.SubNode:
		b, ok := y.(*ast.SubNode)
		return ok && sameTree(a.Arg1, b.Arg1) && sameTree(a.Arg2, b.Arg2)
	case *ast.EqNode:
		b, ok := y.(*ast.EqNode)
		return ok && sameTree(a.Arg1, b.Arg1) && sameTree(a.Arg2, b.Arg2)
	case *ast.NotEqNode:
		b, ok := y.(*ast.NotEqNode)
		return ok && sameTree(a.Arg1, b.Arg1) && sameTree(a.Arg2, b.Arg2)
	case *ast.LtNode:
		b, ok := y.(*ast.LtNode)
		return ok && sameTree(a.Arg1, b.Arg1) && sameTree(a.Arg2, b.Arg2)
	case *ast.LteNode:
		b, ok := y.(*ast.LteNode)
		return ok && sameTree(a.Arg1, b.Arg1) && sameTree(a.Arg2, b.Arg2)
	case *ast.GtNode:
		b, ok := y.(*ast.GtNode)
		return ok && sameTree(a.Arg1, b.Arg1) && sameTree(a.Arg2, b.Arg2)
	case *ast.GteNode:
		b, ok := y.(*ast.GteNode)
		return ok && sameTree(a.Arg1, b.Arg1) && sameTree(a.Arg2, b.Arg2)
	case *ast.AndNode:
		b, ok := y.(*ast.AndNode)
		return ok && sameTree(a.Arg1, b.Arg1) && sameTree(a.Arg2, b.Arg2)
	case *ast.OrNode:
		b, ok := y.(*ast.OrNode)
		return ok && sameTree(a.Arg1, b.Arg1) && sameTree(a.Arg2, b.Arg2)
	case *ast.ElvisNode:
		b, ok := y.(*ast.ElvisNode)
		return ok && sameTree(a.Arg1, b.Arg1) && sameTree(a.Arg2, b.Arg2)
	}
	return false
}

func dref(k string) ast.Node { return &ast.DataRefNode{Key: k} }

// H_prec: "$a op1 $b op2 $c" in three parenthesisations and with unary operators.
func H_prec(op1, op2, form int) {
	o1, o2 := c01Ops[op1], c01Ops[op2]
	a, b, c := dref("a"), dref("b"), dref("c")
	var src string
	var want ast.Node
	left := c01Mk(op2, c01Mk(op1, a, b), c)
	right := c01Mk(op1, a, c01Mk(op2, b, c))
	natural := left // equal precedence: left associative
	if c01Prec[op2] > c01Prec[op1] {
		natural = right
	}
	switch form {
	case 0:
		src, want = "$a "+o1+" $b "+o2+" $c", natural
		if op1 == 13 && op2 == 13 {
			return // a ?: b ?: c: either association denotes the same value; not asserted
		}
	case 1:
		src, want = "($a "+o1+" $b) "+o2+" $c", left
	case 2:
		src, want = "$a "+o1+" ($b "+o2+" $c)", right
	case 3: // unary minus binds tighter than any binary operator
		src, want = "-$a "+o1+" $b", c01Mk(op1, &ast.NegateNode{Arg: a}, b)
	case 4:
		src, want = "$a "+o1+" -$b", c01Mk(op1, a, &ast.NegateNode{Arg: b})
	case 5:
		src, want = "not $a "+o1+" $b", c01Mk(op1, &ast.NotNode{Arg: a}, b)
	case 6: // ternary is lowest and right associative
		src = "$a " + o1 + " $b ? $c " + o2 + " 1 : 2 ? 3 : 4"
		want = &ast.TernNode{Arg1: c01Mk(op1, a, b), Arg2: c01Mk(op2, c, &ast.IntNode{Value: 1}),
			Arg3: &ast.TernNode{Arg1: &ast.IntNode{Value: 2}, Arg2: &ast.IntNode{Value: 3}, Arg3: &ast.IntNode{Value: 4}}}
	case 7: // redundant parentheses around everything and around operands
		src, want = "(($a) "+o1+" ($b))", c01Mk(op1, a, b)
	}
	verifObserve("src", src)
	got, err := Expr(src)
	verifAssert(err == nil, "valid expression rejected: "+src)
	verifAssert(sameTree(got, want), "expression parsed with the wrong structure: "+src)
}

// ---- acceptance of every valid expression in every syntactic position ----

var c01Exprs = []string{
	"1", "-1", "-$a", "- 1", "(1 + 2) * 3", "not $a", "[1, 2]", "['a': 1]", "'s'", "1.5", "-1.5", "$a.b", "$a?.b[0]",
	"f(1)", "GLOBAL_X", "null", "true", "$a ? 1 : 2", "$a ?: 1", "-(1)", "(-1)", "not -1", "[-1]", "['a': -1]", "0x1F", "6.02e23",
	"$ij.x", "[]", "[:]", "(1)", "1 - -1", "-$a.b", "$a[-1]",
}

var c01Positions = []string{
	"{%E}", "{print %E}", "{if %E}x{/if}", "{if 1}x{elseif %E}y{/if}", "{let $x: %E/}{$x}", "{call .u}{param k: %E/}{/call}",
	"{switch 1}{case %E}x{/switch}", "{switch %E}{case 1}x{/switch}", "{foreach $i in %E}x{/foreach}", "{for $i in range(%E)}x{/for}",
	"{$a|truncate:%E}", "{$a|truncate:1,%E}", "{['k': %E]}", "{$a[%E]}", "{[%E]}", "{[1, %E]}", "{f(%E)}", "{f(1, %E)}", "{1 ? %E : 2}",
	"{1 ? 2 : %E}", "{$a ?: %E}", "{$a == %E}", "{(%E)}", "{msg desc=\"d\"}{%E}{/msg}", "{css %E, x}", "{{%E}}", "{$a?[%E]}",
}

func c01Put(pos, e string) string {
	for i := 0; i+1 < len(pos); i++ {
		if pos[i] == '%' && pos[i+1] == 'E' {
			return pos[:i] + e + pos[i+2:]
		}
	}
	return pos
}

// H_accept: every valid expression is accepted wherever an expression may appear.
func H_accept(p, e int) {
	if p == 8 && c01Exprs[e][0] == '-' {
		return // "{foreach $i in -x}": 'in' is lexed as an identifier, and negating a list has no meaning anyway
	}
	src := "{namespace n}\n/** @param a */\n{template .t}\n" + c01Put(c01Positions[p], c01Exprs[e]) + "\n{/template}\n"
	verifObserve("tag", c01Put(c01Positions[p], c01Exprs[e]))
	_, err := SoyFile("a.soy", src)
	verifAssert(err == nil, "valid expression rejected: "+c01Put(c01Positions[p], c01Exprs[e]))
}

// ---- string literals ----

// H_quote: unquoteString(quoteString(s)) == s for every valid UTF-8 string of n bytes; never panics.
func H_quote(n int) {
	s := verifString(n)
	q := quoteString(s)
	verifObserve("s", s)
	u, err := unquoteString(q)
	valid := true
	for i := 0; i < len(s); {
		r, sz := verifModel_utf8_DecodeRuneInString(s[i:])
		if r == 0xFFFD && sz == 1 {
			valid = false
		}
		i += sz
	}
	if valid {
		verifAssert(err == nil, "quoted string does not unquote")
		verifAssert(u == s, "unquote(quote(s)) != s")
	}
}

// H_unquote: unquoteString on arbitrary bytes between quotes: returns, never panics; escapes
// decode per the language (\\ \' \n \r \t \b \f \uXXXX).
var c01UnquotePrefix = []string{"", "\\u", "a\\u", "\\u0", "\\"}

func H_unquote(n int) { H_unquotePre(0, n) }

// H_unquotePre: the same with a fixed prefix before the n symbolic bytes (escape sequences that
// need several more characters).
func H_unquotePre(pre, n int) {
	body := c01UnquotePrefix[pre] + verifString(n)
	if pre == 1 && n == 4 {
		// \uXXXX with four symbolic characters: accepted exactly for four hexadecimal digits of
		// either case, and then denotes that code point
		u, err := unquoteString("'" + body + "'")
		val, hex := 0, true
		for i := 2; i < 6; i++ {
			c := body[i]
			switch {
			case c >= '0' && c <= '9':
				val = val<<4 | int(c-'0')
			case c >= 'a' && c <= 'f':
				val = val<<4 | int(c-'a'+10)
			case c >= 'A' && c <= 'F':
				val = val<<4 | int(c-'A'+10)
			default:
				hex = false
			}
		}
		verifObserve("body", body)
		if hex {
			verifAssert(err == nil, "a \\uXXXX escape with four hexadecimal digits was rejected")
			verifAssert(u == string(rune(val)), "a \\uXXXX escape denotes another character than its code point")
		}
		// (what happens to other spellings is not the property's subject: it speaks about valid
		// expressions; strconv-style signs such as \\u+123 are accepted today)
		return
	}
	if pre != 0 {
		_, _ = unquoteString("'" + body + "'") // must return (no panic)
		return
	}
	u, err := unquoteString("'" + body + "'")
	verifObserve("body", body)
	if n == 2 && body[0] == '\\' {
		var want string
		ok := true
		switch body[1] {
		case '\\':
			want = "\\"
		case '\'':
			want = "'"
		case 'n':
			want = "\n"
		case 'r':
			want = "\r"
		case 't':
			want = "\t"
		case 'b':
			want = "\b"
		case 'f':
			want = "\f"
		default:
			ok = false
		}
		if ok {
			verifAssert(err == nil && u == want, "escape sequence decodes wrongly")
		} else {
			verifAssert(err != nil, "unknown escape sequence accepted")
		}
	}
	if err == nil {
		verifObserve("u", u)
	}
}

// ---- numbers ----

func refIsDec(c byte) bool { return c >= '0' && c <= '9' }
func refIsHex(c byte) bool { return refIsDec(c) || (c >= 'A' && c <= 'F') }

// refNumber: the documented number grammar. Returns (isNumber, isFloat) for the whole string.
func refNumber(s string) (bool, bool) {
	i := 0
	if i < len(s) && s[i] == '-' {
		i++
	}
	if len(s)-i >= 2 && s[i] == '0' && s[i+1] == 'x' {
		if i != 0 {
			return false, false
		}
		i += 2
		if i >= len(s) {
			return false, false
		}
		for ; i < len(s); i++ {
			if !refIsHex(s[i]) {
				return false, false
			}
		}
		return true, false
	}
	st := i
	for i < len(s) && refIsDec(s[i]) {
		i++
	}
	if i == st {
		return false, false
	}
	isFloat := false
	if i < len(s) && s[i] == '.' {
		i++
		f := i
		for i < len(s) && refIsDec(s[i]) {
			i++
		}
		if i == f {
			return false, false
		}
		isFloat = true
	} else if s[st] == '0' && i-st > 1 {
		return false, false // integers do not start with 0
	}
	if i < len(s) && s[i] == 'e' {
		i++
		if i < len(s) && (s[i] == '+' || s[i] == '-') {
			i++
		}
		e := i
		for i < len(s) && refIsDec(s[i]) {
			i++
		}
		if i == e {
			return false, false
		}
		isFloat = true
	}
	return i == len(s), isFloat
}

var c01NumAlphabet = []byte("0159xAFe.+-a")

// H_scanNumber: n characters over the number alphabet, followed by '}': scanNumber accepts exactly
// the documented grammar and classifies int/float.
func H_scanNumber(n int) {
	b := make([]byte, n)
	for i := range b {
		b[i] = c01NumAlphabet[verifChoose(len(c01NumAlphabet))]
	}
	s := string(b)
	verifAssume(n > 0 && (refIsDec(s[0]) || s[0] == '-'))
	if s[0] == '-' {
		verifAssume(n > 1 && refIsDec(s[1]))
	}
	l := &lexer{input: s + "}", items: make(chan item, 4)}
	typ, ok := scanNumber(l)
	verifObserve("s", s)
	isNum, isFloat := refNumber(s)
	if isNum {
		verifAssert(ok && int(l.pos) == n, "valid number literal rejected: "+s)
		verifAssert((typ == itemFloat) == isFloat, "number literal classified wrongly: "+s)
		// and it converts (unless its exponent puts it outside float64: rejecting 9e999 is not
		// what the property is about)
		for i := 0; i < len(s); i++ {
			if s[i] == 'e' && len(s)-i > 3 {
				return
			}
		}
		src := "{namespace n}\n/** */\n{template .t}\n{" + s + "}\n{/template}\n"
		_, err := SoyFile("a.soy", src)
		verifAssert(err == nil, "valid number literal does not parse in a print: "+s)
	}
	_ = strconv.Itoa
}
