package parse

import (
	"sync"
	"sync/atomic"
	"time"

	"github.com/robfig/soy/errortypes"
)

const vT = "{namespace a}\n{template .b}\n"

// parseCtx: concrete contexts that put lexer and parser into each of their states; the symbolic
// bytes go between pre and post.
var parseCtx = []struct{ pre, post string }{
	{"", ""},                                    // 0 file level
	{"{namespace ", ""},                         // 1
	{"{namespace a}\n/** ", ""},                 // 2 soydoc
	{"{namespace a}\n/** @param ", ""},          // 3
	{"{namespace a}\n/** x */\n{template ", ""}, // 4
	{vT, ""},                                               // 5 template body
	{vT, "{/template}\n"},                                  // 6 body with valid tail
	{vT + "{", ""},                                         // 7
	{vT + "{{", ""},                                        // 8
	{vT + "{print ", ""},                                   // 9
	{vT + "{if ", ""},                                      // 10
	{vT + "{if $x}a{elseif ", ""},                          // 11
	{vT + "{switch $x}", ""},                               // 12
	{vT + "{switch $x}{case ", ""},                         // 13
	{vT + "{foreach $x in ", ""},                           // 14
	{vT + "{for $i in range(", ""},                         // 15
	{vT + "{let $x", ""},                                   // 16
	{vT + "{let $x:", ""},                                  // 17
	{vT + "{call .t", ""},                                  // 18
	{vT + "{call .t}", ""},                                 // 19
	{vT + "{call .t}{param k", ""},                         // 20
	{vT + "{css ", ""},                                     // 21
	{vT + "{@param x", ""},                                 // 22
	{vT + "{@param x: ", ""},                               // 23
	{vT + "{literal}", ""},                                 // 24
	{vT + "{msg desc=\"\"}", ""},                           // 25
	{vT + "{msg desc=\"\"}{plural $x}", ""},                // 26
	{"{namespace a}\n{alias ", ""},                         // 27
	{vT + "{'str", ""},                                     // 28
	{vT + "/* comm", ""},                                   // 29
	{vT + "a // comm", ""},                                 // 30
	{vT + "{$x.", ""},                                      // 31
	{vT + "{$x[", ""},                                      // 32
	{vT + "{['a':", ""},                                    // 33
	{vT + "{f(", ""},                                       // 34
	{vT + "{$x|", ""},                                      // 35
	{vT + "{$x|truncate:", ""},                             // 36
	{vT + "{call .t data=\"", ""},                          // 37
	{vT + "{msg desc=\"", ""},                              // 38
	{vT + "{$x ", "}\n{/template}\n"},                      // 39 inside a print, valid tail
	{vT + "{if $x}", "{/if}\n{/template}\n"},               // 40 inside an if block, valid tail
	{vT + "{msg desc=\"\"}{plural $x}{case 1}", ""},        // 41
	{vT + "{call .t}{param k}", ""},                        // 42
	{vT + "{foreach $x in $y}", ""},                        // 43
	{vT + "{let $x}", ""},                                  // 44
	{vT + "{1", ""},                                        // 45 number
	{vT + "{css $x,", ""},                                  // 46
	{vT + "{\\", ""},                                       // 47 special char
	{vT + "{/", ""},                                        // 48 command end
	{vT + "{$x ? ", ""},                                    // 49
	{vT + "{'\\u", ""},                                     // 50 unicode escape in a string literal
	{vT + "{'a\\u1", "'}\n{/template}\n"},                  // 51 short unicode escape before the closing quote
	{vT + "{call .t data=\"1 + ", " 2\"/}\n{/template}\n"}, // 52 inside a quoted attribute expression, tokens follow
	{vT + "{css (1 ", " 2) c, x}\n{/template}\n"},          // 53 inside the css expression, tokens follow
	{vT + "{call .t}{param k value=\"[1, 2 ", " 3]\"/}{/call}\n{/template}\n"}, // 54
	{vT + "{['\\u12", "': 1]}\n{/template}\n"},                                 // 55 short unicode escape in a map key
	{"\xef\xbb\xbf", ""},            // 56 file starting with a byte order mark
	{"\xef\xbb", "{namespace a}\n"}, // 57 two bytes of a byte order mark
	{"\xef\xbb\xbf{namespace a}\n/** */\n{template .b}\n", "\n{/template}\n"}, // 58 valid file after a byte order mark
	{"\xff\xfe", ""}, // 59 UTF-16 byte order mark
	// attribute values (k = 0 gives the empty value), the rest of the tag follows
	{vT + "{call name=", "/}\n{/template}\n"},                                               // 60
	{vT + "{call name=\"", "\" /}\n{/template}\n"},                                          // 61
	{vT + "{msg desc=", "}m{/msg}\n{/template}\n"},                                          // 62
	{vT + "{msg meaning=\"", "\" desc=\"d\"}m{/msg}\n{/template}\n"},                        // 63
	{"{namespace a autoescape=\"", "\"}\n"},                                                 // 64
	{"{namespace a}\n/** */\n{template .b autoescape=\"", "\"}\nx\n{/template}\n"},          // 65
	{vT + "{call .t}{param k value=\"", "\"/}{/call}\n{/template}\n"},                       // 66
	{vT + "{call .t data=\"", "\"/}\n{/template}\n"},                                        // 67
	{"{namespace a}\n{alias ", "}\n"},                                                       // 68
	{vT + "{call .t}{param ", ": 1/}{/call}\n{/template}\n"},                                // 69
	{vT + "{let $x kind=\"", "\"}a{/let}\n{/template}\n"},                                   // 70
	{vT + "{msg desc=\"\"}{plural $x}{case ", "}a{default}b{/plural}{/msg}\n{/template}\n"}, // 71
	// command names the parser knows of but does not implement, at file level and in a template
	{"{delpackage a.b}\n{namespace a}\n", ""},                  // 72
	{"{namespace a}\n{delpackage ", ""},                        // 73
	{"{namespace a}\n{deltemplate a.b}\n", "{/deltemplate}\n"}, // 74
	{vT + "{delcall a.b}", "{/delcall}\n{/template}\n"},        // 75
	{vT + "{debugger}{log}", "{/log}\n{/template}\n"},          // 76
	{"{delpackage", ""},                                        // 77
	// soydoc lines without a param name, one and several, before and after other errors
	{"{namespace a}\n/**\n * @param \n * @param? \n */\n{template .t}\nx\n{/template}\n", ""},       // 78
	{"{namespace a}\n/** @param \n @param ", ""},                                                    // 79
	{"{namespace a}\n{foo}\n/**\n * @param \n */\n{template .t}\n", "\n{/template}\n"},              // 80
	{"{namespace a}\n/** @param x */\n{template .t}\n{$x", "\n{/template}\n/**\n * @param \n */\n"}, // 81
}

// exprCtx: the same for parse.Expr
var exprCtx = []struct{ pre, post string }{
	{"", ""}, {"1 ", ""}, {"$x.", ""}, {"$x[", ""}, {"['a':", ""}, {"f(", ""}, {"'s", ""}, {"1 ? ", ""}, {"-", ""},
	{"not ", ""}, {"1 + ", " 2"}, {"(", ")"}, {"[", "]"}, {"$x?.", ""}, {"1 ?: ", ""}, {"0x", ""}, {"1.", ""}, {"1e", ""},
	{"'\\u", ""}, {"'\\u1", "'"}, {"'ab\\u", "'"}, {"['\\u", "': 1]"},
}

func symSuffix(k int, ascii bool) string {
	s := verifString(k)
	if ascii {
		for i := 0; i < len(s); i++ {
			verifAssume(s[i] < 0x80)
		}
	}
	return s
}

func checkParseResult(name, in string, isNil bool, err error) {
	verifAssert(isNil == (err != nil), "C05: result is neither (tree, nil) nor (nil, err)")
	if err != nil {
		fp := errortypes.ToErrFilePos(err)
		if name != "" {
			verifAssert(fp != nil, "C19: parse error carries no file position")
		}
		if fp != nil {
			verifAssert(fp.File() == name, "C19: parse error names a different file")
			nl := 0
			for i := 0; i < len(in); i++ {
				if in[i] == '\n' {
					nl++
				}
			}
			verifAssert(fp.Line() >= 1 && fp.Line() <= 1+nl, "C19: line number of a parse error lies outside the input")
		}
	}
	verifAssert(verifLiveGoroutines() == 0, "C18: scanner goroutine still alive after the parse returned")
}

// H_parseCtx: SoyFile on parseCtx[ctx].pre + k symbolic bytes + post. Termination (step bound =
// unwinding assertion), absence of deadlock and of escaping panics are engine verdicts.
func H_parseCtx(ctx, k int, ascii bool) {
	c := parseCtx[ctx]
	in := c.pre + symSuffix(k, ascii) + c.post
	verifObserve("in", in)
	n, err := SoyFile("x.soy", in)
	if err != nil {
		verifObserve("err", "error")
	} else {
		verifObserve("err", "ok")
	}
	checkParseResult("x.soy", in, n == nil, err)
}

// H_exprCtx: the same for parse.Expr.
func H_exprCtx(ctx, k int, ascii bool) {
	c := exprCtx[ctx]
	in := c.pre + symSuffix(k, ascii) + c.post
	verifObserve("in", in)
	n, err := Expr(in)
	if err != nil {
		verifObserve("err", "error")
	} else {
		verifObserve("err", "ok")
	}
	checkParseResult("", in, n == nil, err)
}

// every prefix of a valid file that uses all commands
const validFile = "{namespace a.b autoescape=\"true\"}\n{alias x.y}\n/** @param a\n * @param? b */\n{template .t private=\"true\"}\n" +
	"{@param? c: string}\nhi {$a} // c\n/* c */{if $a > 1 and not $b}{$a|truncate:3,true}{elseif $c}{lb}{else}{sp}{/if}" +
	"{switch $a}{case 1, 'x'}one{default}d{/switch}{foreach $i in $a.b[0]?.c}{index($i)}{ifempty}e{/foreach}" +
	"{for $j in range(1, 5, 2)}{$j}{/for}{let $l: $a['k'] ?: ['a': 2, 'b': [1, 2]] /}{let $m}x{$l}{/let}{call .u data=\"all\"}{param p: $m /}{param q}z{/param}{/call}" +
	"{call y.v data=\"$a\" /}{css $a, foo-bar}{css baz}{literal}{x}{/literal}{msg desc=\"d\" meaning=\"m\"}H <b>{$a}</b>{/msg}{msg desc=\"p\"}{plural $c}{case 1}o{default}m {$c}{/plural}{/msg}" +
	"{log}l{/log}{debugger}{print 1.5e3 * 0x1F % 2}{{ $a ? 'q\\'' : 'r' }}\n{/template}\n"

// H_prefix: SoyFile on the first n bytes of validFile followed by k symbolic bytes.
func H_prefix(n, k int) {
	if n > len(validFile) {
		n = len(validFile)
	}
	in := validFile[:n] + symSuffix(k, false)
	verifObserve("in", in)
	node, err := SoyFile("x.soy", in)
	checkParseResult("x.soy", in, node == nil, err)
}

func H_validFile() {
	node, err := SoyFile("x.soy", validFile)
	if err != nil {
		verifObserve("err", err.Error())
	}
	verifAssert(err == nil && node != nil, "harness: validFile does not parse")
	verifObserveInt("len", len(validFile))
}

// H_parseRace (C09): happens-before check of every heap access during a parse: the scanner
// goroutine and the parser share memory only through the token channel.
func H_parseRace(v int) {
	ins := []string{validFile, "{namespace a}\n/** @param x */\n{template .b}\n{$x ^}\n{/template}\n", "{namespace a}\n{template .b}\n{call .t data=\"1 + ) 2\"/}", "", "{"}
	verifRaceTrack(true)
	if v < len(ins) {
		SoyFile("x.soy", ins[v])
	} else {
		Expr([]string{"1 + 2 * $a.b[0]", "1 2 3", "f(", "'a' ~"}[v-len(ins)])
	}
	verifRaceTrack(false)
	verifAssert(verifLiveGoroutines() == 0, "C18: scanner goroutine still alive after the parse returned")
}

// H_raceSelftest: a deliberately racy use of the lexer (machinery self-test: must be reported).
func H_raceSelftest() {
	verifRaceTrack(true)
	l := lex("x", "{namespace a}\n{template .b}\nhello\n{/template}\n")
	n := 0
	for it := l.nextItem(); it.typ != itemEOF && it.typ != itemError; it = l.nextItem() {
		n += int(l.pos) // unsynchronised read of a field the scanner goroutine keeps writing
	}
	l.drain()
	verifRaceTrack(false)
	verifObserveInt("n", n)
}

// H_selectSelftest: machinery self-test of the engine's select/close model. A producer hands over
// n items through a select that also listens on a quit channel; the consumer takes k of them and
// then closes quit. Whatever case the select picks, the consumer sees the first k items in order
// and the producer exits (no goroutine left). mode 1 uses a non-blocking select with default.
func H_selectSelftest(n, k, mode int) {
	items, quit, done := make(chan int), make(chan struct{}), make(chan int)
	go func() {
		sent := 0
		for i := 0; i < n; i++ {
			if mode == 1 {
				select {
				case <-quit:
					done <- sent
					return
				default:
				}
			}
			select {
			case items <- i:
				sent++
			case <-quit:
				done <- sent
				return
			}
		}
		done <- sent
	}()
	for i := 0; i < k && i < n; i++ {
		v := <-items
		verifAssert(v == i, "selftest: items out of order")
	}
	close(quit)
	sent := 0
	if k >= n {
		// the producer may have finished already or be about to see quit
		sent = <-done
		verifAssert(sent == n, "selftest: producer count")
	} else {
		// producer is blocked in the select (or about to enter it): it sends k or k+... no: it can
		// only leave through quit, having sent exactly k items, unless the ready send wins first
		select {
		case v := <-items:
			verifAssert(v == k, "selftest: late item")
			sent = <-done
			verifAssert(sent >= k+1, "selftest: producer count after late item")
		case sent = <-done:
			verifAssert(sent == k, "selftest: producer count")
		}
	}
	verifObserveInt("sent", sent)
	verifAssert(verifLiveGoroutines() == 0, "selftest: producer still alive")
}

// H_wgSelftest: machinery self-test of the engine's WaitGroup / atomic model under both run-queue
// disciplines: n workers add their index atomically and send it on a buffered channel; after
// Wait the sum is complete and every worker has exited.
func H_wgSelftest(n int) {
	verifSchedChoice()
	var wg sync.WaitGroup
	var sum int64
	var av atomic.Value
	res := make(chan int, n)
	for i := 1; i <= n; i++ {
		wg.Add(1)
		go func(i int) {
			defer wg.Done()
			atomic.AddInt64(&sum, int64(i))
			av.Store(i)
			res <- i
		}(i)
	}
	wg.Wait()
	close(res)
	total := 0
	for v := range res {
		total += v
	}
	verifAssert(total == n*(n+1)/2 && atomic.LoadInt64(&sum) == int64(total), "selftest: WaitGroup released before every worker was done")
	if n > 0 {
		_, ok := av.Load().(int)
		verifAssert(ok, "selftest: atomic.Value lost its value")
	}
	verifAssert(verifLiveGoroutines() == 0, "selftest: worker still alive")
}

// repeating units that keep lexer and parser in one state for long (pre + unit*k + post is a file)
var linearUnits = []struct{ pre, unit, post string }{
	{vT, "text and more text ", "\n{/template}\n"},
	{vT, "{$x}", "\n{/template}\n"},
	{vT, "a // comment\n", "{/template}\n"},
	{vT, "/* c */ ", "\n{/template}\n"},
	{vT, "{if $x}a{elseif $y}b{else}c{/if}", "\n{/template}\n"},
	{vT, "{msg desc=\"d\"}a <b>c</b> d{/msg}", "\n{/template}\n"},
	{vT + "{msg desc=\"d\"}", "<a ", "{/msg}\n{/template}\n"}, // many unclosed tag openings in one message
	{vT + "{msg desc=\"d\"}", "x < y ", "{/msg}\n{/template}\n"},
	{vT + "{msg desc=\"d\"}", "<b>x</b>", "{/msg}\n{/template}\n"},
	{vT + "{$x + ", "1 + ", "1}\n{/template}\n"},
	{vT + "{[", "1, ", "1]}\n{/template}\n"},
	{vT + "{'", "ab\\n", "'}\n{/template}\n"},
	{vT + "{literal}", "{x} ", "{/literal}\n{/template}\n"},
	{vT + "{call .t}", "{param a: 1 /}", "{/call}\n{/template}\n"},
	{vT + "{switch $x}", "{case 1}a", "{/switch}\n{/template}\n"},
	{vT + "{$x", "|id", "}\n{/template}\n"},
	{vT + "{$x", ".a", "}\n{/template}\n"},
	{"{namespace a}\n", "/** @param x */\n{template .t}\n{$x}\n{/template}\n", ""},
	{"{namespace a}\n/**\n", " * @param x the x\n", " */\n{template .t}\nx\n{/template}\n"},
	{vT, "{{", ""},
	{vT, "<<<<", "\n{/template}\n"},
	{vT + "{css ", "a", "}\n{/template}\n"},
}

// H_linear (C05, time proportional to the input): the number of interpreter steps (library calls
// are charged their argument length) of parsing pre + unit*2k + post is at most about twice that
// of pre + unit*k + post, for k = 400 (natively: wall-clock time for k = 3000).
func H_linear(u int) {
	c := linearUnits[u]
	run := func(k int) int {
		in := c.pre
		for i := 0; i < k; i++ {
			in += c.unit
		}
		in += c.post
		before := verifSteps()
		SoyFile("x.soy", in)
		return verifSteps() - before
	}
	const msg = "C05: parse time grows faster than the input (doubling the number of repeated units more than doubles the work)"
	if verifSymbolic() {
		s1, s2 := run(400), run(800)
		verifAssert(s2 <= 2*s1+s1/3+3000, msg)
		return
	}
	// native confirmation: wall-clock time of 3000 vs 6000 units (best of three)
	timed := func(k int) time.Duration {
		in := c.pre
		for i := 0; i < k; i++ {
			in += c.unit
		}
		in += c.post
		best := time.Duration(1 << 62)
		for r := 0; r < 3; r++ {
			t0 := time.Now()
			SoyFile("x.soy", in)
			if d := time.Since(t0); d < best {
				best = d
			}
		}
		return best
	}
	t1, t2 := timed(3000), timed(6000)
	verifAssert(t2 <= 3*t1+20*time.Millisecond, msg)
}
