package parse

import (
	"strconv"

	"github.com/robfig/soy/errortypes"
)

// faults injected into one body line; exact=true: the error must name exactly that line;
// otherwise (constructs left open until the end of input) any line from the construct's line to
// the last line is accepted.
var c19Faults = []struct {
	text  string
	exact bool
}{
	{"a{$x ^}b", true},                                  // 0 illegal character in a tag
	{"a } b", true},                                     // 1 stray closing brace in text
	{"a{/foo}b", true},                                  // 2 unknown command
	{"a{1a}b", true},                                    // 3 bad number
	{"a{$x|}b", true},                                   // 4 missing directive name
	{"a{if}b{/if}", true},                               // 5 missing condition
	{"a{'abc}b", false},                                 // 6 unterminated string
	{"a /* abc", false},                                 // 7 unterminated comment
	{"a{if $x", false},                                  // 8 unterminated tag
	{"a{$x b}b", true},                                  // 9 two operands without an operator
	{"a{call .u}b", false},                              // 10 unterminated call block
	{"a{else}b", true},                                  // 11 else outside if
	{"a{9223372036854775808}b", true},                   // 12 integer literal out of range
	{"a{0x10000000000000000}b", true},                   // 13 hex literal out of range
	{"a{$x.99999999999999999999}b", true},               // 14 list index out of range
	{"a{$x[1e999]}b", true},                             // 15 float literal out of range
	{"a{call .t data=\"9223372036854775808\"/}b", true}, // 16 the same inside a quoted attribute
}

var c19NL = []string{"\n", "\r\n", "\n\n"}

func contains19(s, sub string) bool {
	for i := 0; i+len(sub) <= len(s); i++ {
		if s[i:i+len(sub)] == sub {
			return true
		}
	}
	return false
}

// H_errpos: a valid file of 3 header lines + L body lines; fault f injected on body line k
// (chosen symbolically), line-break style nl.
func H_errpos(f, nl, L int) {
	brk := c19NL[nl]
	k := verifChoose(L) // 0-based body line carrying the fault
	src := "{namespace n}" + brk + "/** @param x */" + brk + "{template .t}" + brk
	line := 1 + 3*linesPer(nl)
	faultLine := 0
	for i := 0; i < L; i++ {
		if i == k {
			faultLine = line
			src += c19Faults[f].text + brk
		} else {
			src += []string{"line{$x}", "\u00e9\u20ac{$x}\u00e9", "\U0001F600{$x} x"}[i%3] + brk
		}
		line += linesPer(nl)
	}
	src += "{/template}" + brk
	lastLine := line + linesPer(nl)
	verifObserve("src", src)
	_, err := SoyFile("some/file.soy", src)
	verifAssert(err != nil, "harness: faulty file parsed")
	fp := errortypes.ToErrFilePos(err)
	verifAssert(fp != nil, "C19: parse error carries no file position")
	verifObserveInt("line", fp.Line())
	verifAssert(fp.File() == "some/file.soy", "C19: parse error names a different file")
	if c19Faults[f].exact {
		verifAssert(fp.Line() == faultLine, "C19: parse error does not point at the line of the offending construct")
	} else {
		verifAssert(fp.Line() >= faultLine && fp.Line() <= lastLine, "C19: parse error points before the offending construct or outside the input")
	}
	verifAssert(contains19(err.Error(), "some/file.soy:"+strconv.Itoa(fp.Line())+":"+strconv.Itoa(fp.Col())), "C19: the message text does not carry the same file:line:col")
}

func linesPer(nl int) int {
	if nl == 2 {
		return 2
	}
	return 1
}
