package PKGNAME

import (
	"fmt"
	"os"
	"strconv"
	"testing"
)

func verifAtoi(s string) int { n, _ := strconv.Atoi(s); return n }

// TestVerifReplay runs one harness natively on an input tape (VERIF_TAPE=<file>).
func TestVerifReplay(t *testing.T) {
	path := os.Getenv("VERIF_TAPE")
	if path == "" {
		t.Skip("no tape")
	}
	name, args := verifLoadTape(path)
	h, ok := verifHarnesses[name]
	if !ok {
		fmt.Println("VERIF-TAPE-ERROR unknown harness", name)
		os.Exit(43)
	}
	h(args)
	fmt.Println("VERIF-DONE")
}
