package PKGNAME

// Harness runtime. The symbolic engine (gosym) intercepts calls to these functions by name;
// the bodies below are what the natively compiled replay uses: they read the next value from an
// input tape (one decimal number per line) produced from a solver model.

import (
	"fmt"
	"math"
	"os"
	"runtime"
	"strconv"
	"strings"
	"time"
)

var (
	verifTape  []uint64
	verifPos   int
	verifBaseG int
)

// verifLoadTape reads a tape file: line 1 harness name, line 2 comma separated args, then values.
func verifLoadTape(path string) (string, []string) {
	b, err := os.ReadFile(path)
	if err != nil {
		fmt.Println("VERIF-TAPE-ERROR", err)
		os.Exit(43)
	}
	lines := strings.Split(string(b), "\n")
	for len(lines) < 2 {
		lines = append(lines, "")
	}
	for _, l := range lines[2:] {
		if l = strings.TrimSpace(l); l == "" {
			continue
		}
		v, err := strconv.ParseUint(l, 10, 64)
		if err != nil {
			fmt.Println("VERIF-TAPE-ERROR", err)
			os.Exit(43)
		}
		verifTape = append(verifTape, v)
	}
	var args []string
	if strings.TrimSpace(lines[1]) != "" {
		args = strings.Split(strings.TrimSpace(lines[1]), ",")
	}
	verifBaseG = runtime.NumGoroutine()
	return strings.TrimSpace(lines[0]), args
}

func verifNext() uint64 {
	if verifPos >= len(verifTape) {
		verifPos++
		return 0
	}
	v := verifTape[verifPos]
	verifPos++
	return v
}

func verifByte() byte       { return byte(verifNext()) }
func verifBool() bool       { return verifNext() != 0 }
func verifInt() int         { return int(int64(verifNext())) }
func verifInt64() int64     { return int64(verifNext()) }
func verifUint32() uint32   { return uint32(verifNext()) }
func verifRune() rune       { return rune(int32(uint32(verifNext()))) }
func verifFloat64() float64 { return math.Float64frombits(verifNext()) }
func verifString(n int) string {
	b := make([]byte, n)
	for i := range b {
		b[i] = byte(verifNext())
	}
	return string(b)
}
func verifBytes(n int) []byte { return []byte(verifString(n)) }
func verifChoose(n int) int {
	if n <= 1 {
		return 0
	}
	v := int(verifNext())
	if v >= n {
		fmt.Println("VERIF-TAPE-MISMATCH choose", v, n)
		os.Exit(43)
	}
	return v
}
func verifAssume(b bool) {
	if !b {
		fmt.Println("VERIF-ASSUME-FAIL")
		os.Exit(42)
	}
}
func verifAssert(b bool, m string) {
	if !b {
		fmt.Printf("VERIF-ASSERT-FAIL %q\n", m)
		os.Exit(41)
	}
}
func verifObserve(name string, val string) { fmt.Printf("VERIF-OBS %q %q\n", name, val) }
func verifObserveInt(name string, val int)  { fmt.Printf("VERIF-OBS %q %q\n", name, strconv.Itoa(val)) }

// verifLiveGoroutines: goroutines started since the tape was loaded that are still alive after
// every runnable goroutine had ample time to finish.
func verifLiveGoroutines() int {
	for i := 0; i < 200; i++ {
		if runtime.NumGoroutine() <= verifBaseG {
			return 0
		}
		runtime.Gosched()
		time.Sleep(time.Millisecond)
	}
	return runtime.NumGoroutine() - verifBaseG
}

func verifFreeze(label string, roots ...interface{}) {}
func verifFreezeGlobals()                           {}
func verifUnfreeze()                                {}
func verifMapOrder(site string)                     {}
func verifMapOrderArg() string                      { return "" }
func verifSteps() int                               { return 0 }
func verifSymbolic() bool                           { return false }
