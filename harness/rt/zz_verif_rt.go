package PKGNAME

// Harness runtime. The symbolic engine (gosym) intercepts calls to these functions by name;
// the bodies below are what the natively compiled replay uses: they read the next value from an
// input tape (one decimal number per line) produced from a solver model.

import (
	"fmt"
	"math"
	"os"
	"reflect"
	"runtime"
	"sort"
	"strconv"
	"strings"
	"sync"
	"sync/atomic"
	"time"
	"unsafe"
)

var (
	verifTape  []uint64
	verifPos   int
	verifBaseG int
)

// verifLoadTape reads a tape file: line 1 harness name, line 2 comma separated args, then values.
func verifLoadTape(path string) (string, []string) {
	b, err := os.ReadFile(path)
	if err != nil {
		fmt.Println("VERIF-TAPE-ERROR", err)
		os.Exit(43)
	}
	lines := strings.Split(string(b), "\n")
	for len(lines) < 2 {
		lines = append(lines, "")
	}
	for _, l := range lines[2:] {
		if l = strings.TrimSpace(l); l == "" {
			continue
		}
		v, err := strconv.ParseUint(l, 10, 64)
		if err != nil {
			fmt.Println("VERIF-TAPE-ERROR", err)
			os.Exit(43)
		}
		verifTape = append(verifTape, v)
	}
	var args []string
	if strings.TrimSpace(lines[1]) != "" {
		args = strings.Split(strings.TrimSpace(lines[1]), ",")
	}
	verifBaseG = runtime.NumGoroutine()
	return strings.TrimSpace(lines[0]), args
}

func verifNext() uint64 {
	if verifPos >= len(verifTape) {
		verifPos++
		return 0
	}
	v := verifTape[verifPos]
	verifPos++
	return v
}

func verifByte() byte       { return byte(verifNext()) }
func verifBool() bool       { return verifNext() != 0 }
func verifInt() int         { return int(int64(verifNext())) }
func verifInt64() int64     { return int64(verifNext()) }
func verifUint32() uint32   { return uint32(verifNext()) }
func verifRune() rune       { return rune(int32(uint32(verifNext()))) }
func verifFloat64() float64 { return math.Float64frombits(verifNext()) }
func verifString(n int) string {
	b := make([]byte, n)
	for i := range b {
		b[i] = byte(verifNext())
	}
	return string(b)
}
func verifBytes(n int) []byte { return []byte(verifString(n)) }
func verifChoose(n int) int {
	if n <= 1 {
		return 0
	}
	v := int(verifNext())
	if v >= n {
		fmt.Println("VERIF-TAPE-MISMATCH choose", v, n)
		os.Exit(43)
	}
	return v
}
func verifAssume(b bool) {
	if !b {
		fmt.Println("VERIF-ASSUME-FAIL")
		os.Exit(42)
	}
}
func verifAssert(b bool, m string) {
	if !b {
		fmt.Printf("VERIF-ASSERT-FAIL %q\n", m)
		os.Exit(41)
	}
}
func verifObserve(name string, val string) { fmt.Printf("VERIF-OBS %q %q\n", name, val) }
func verifObserveInt(name string, val int) { fmt.Printf("VERIF-OBS %q %q\n", name, strconv.Itoa(val)) }

// verifLiveGoroutines: goroutines started since the tape was loaded that are still alive after
// every runnable goroutine had ample time to finish.
func verifLiveGoroutines() int {
	for i := 0; i < 200; i++ {
		if runtime.NumGoroutine() <= verifBaseG {
			return 0
		}
		runtime.Gosched()
		time.Sleep(time.Millisecond)
	}
	return runtime.NumGoroutine() - verifBaseG
}

func verifFreeze(label string, roots ...interface{}) {}
func verifFreezeGlobals()                            {}
func verifUnfreeze()                                 {}
func verifMapOrder(site string)                      {}
func verifMapOrderArg() string                       { return "" }
func verifSteps() int                                { return 0 }

// verifConfirmingFrozen: true in the native run that confirms a frozen-write report of the engine
// (the harness then also compares the package-level variables before and after).
func verifConfirmingFrozen() bool { return os.Getenv("VERIF_CONFIRM_FROZEN") != "" }
func verifSymbolic() bool         { return false }
func verifRaceTrack(on bool)      {}
func verifSchedChoice()           {}

// verifDeepDigest: structural digest of everything reachable from the roots (slices up to their
// capacity, unexported fields included). The engine replaces it by a constant: there the frozen-
// memory monitor decides; natively the digest before/after confirms a reported write.
func verifDeepDigest(roots ...interface{}) string {
	sb := &strings.Builder{}
	seen := map[uintptr]bool{}
	var walk func(v reflect.Value, depth int)
	walk = func(v reflect.Value, depth int) {
		if depth > 200 {
			sb.WriteString("<deep>")
			return
		}
		switch v.Kind() {
		case reflect.Ptr:
			if v.IsNil() {
				sb.WriteString("nil;")
				return
			}
			if seen[v.Pointer()] {
				sb.WriteString("seen;")
				return
			}
			seen[v.Pointer()] = true
			sb.WriteString("&")
			walk(v.Elem(), depth+1)
		case reflect.Interface:
			if v.IsNil() {
				sb.WriteString("nil;")
				return
			}
			sb.WriteString(v.Elem().Type().String() + ":")
			walk(v.Elem(), depth+1)
		case reflect.Struct:
			if pp := v.Type().PkgPath(); pp != "" && !strings.HasPrefix(pp, "github.com/robfig/soy") {
				if v.Type() == reflect.TypeOf(sync.Map{}) && v.CanAddr() {
					// content of a sync.Map (a cache): entries in key order
					var ents []string
					(*sync.Map)(unsafe.Pointer(v.UnsafeAddr())).Range(func(k, val interface{}) bool {
						save := sb
						sb = &strings.Builder{}
						walk(reflect.ValueOf(k), depth+1)
						sb.WriteString("=>")
						walk(reflect.ValueOf(val), depth+1)
						ents = append(ents, sb.String())
						sb = save
						return true
					})
					sort.Strings(ents)
					sb.WriteString("syncmap{" + strings.Join(ents, ",") + "}")
					return
				}
				if v.Type() == reflect.TypeOf(atomic.Value{}) && v.CanAddr() {
					// what an atomic.Value holds (a cache)
					sb.WriteString("atomicvalue{")
					if x := (*atomic.Value)(unsafe.Pointer(v.UnsafeAddr())).Load(); x != nil {
						walk(reflect.ValueOf(x), depth+1)
					}
					sb.WriteString("}")
					return
				}
				switch pp {
				case "sync", "sync/atomic", "os", "log", "regexp", "regexp/syntax", "text/template", "text/template/parse", "time", "reflect":
					// synchronisation words, handles and immutable compiled objects: no template state
					sb.WriteString("<" + v.Type().String() + ">")
					return
				}
			}
			sb.WriteString("{")
			for i := 0; i < v.NumField(); i++ {
				walk(v.Field(i), depth+1)
			}
			sb.WriteString("}")
		case reflect.Slice:
			if v.IsNil() {
				sb.WriteString("nil;")
				return
			}
			full := v.Slice3(0, v.Len(), v.Cap()).Slice(0, v.Cap())
			sb.WriteString(fmt.Sprintf("[%d/%d:", v.Len(), v.Cap()))
			for i := 0; i < full.Len(); i++ {
				walk(full.Index(i), depth+1)
			}
			sb.WriteString("]")
		case reflect.Array:
			for i := 0; i < v.Len(); i++ {
				walk(v.Index(i), depth+1)
			}
		case reflect.Map:
			keys := v.MapKeys()
			strs := make([]string, len(keys))
			for i, k := range keys {
				var kb strings.Builder
				kb.WriteString(fmt.Sprint(k))
				strs[i] = kb.String()
			}
			idx := make([]int, len(keys))
			for i := range idx {
				idx[i] = i
			}
			sort.Slice(idx, func(a, b int) bool { return strs[idx[a]] < strs[idx[b]] })
			sb.WriteString("map{")
			for _, i := range idx {
				sb.WriteString(strs[i] + "=>")
				walk(v.MapIndex(keys[i]), depth+1)
			}
			sb.WriteString("}")
		case reflect.String:
			sb.WriteString(strconv.Quote(v.String()) + ";")
		case reflect.Bool:
			sb.WriteString(strconv.FormatBool(v.Bool()) + ";")
		case reflect.Int, reflect.Int8, reflect.Int16, reflect.Int32, reflect.Int64:
			sb.WriteString(strconv.FormatInt(v.Int(), 10) + ";")
		case reflect.Uint, reflect.Uint8, reflect.Uint16, reflect.Uint32, reflect.Uint64, reflect.Uintptr:
			sb.WriteString(strconv.FormatUint(v.Uint(), 10) + ";")
		case reflect.Float32, reflect.Float64:
			sb.WriteString(strconv.FormatUint(math.Float64bits(v.Float()), 16) + ";")
		case reflect.Func:
			if v.IsNil() {
				sb.WriteString("nilfunc;")
			} else {
				sb.WriteString("func;")
			}
		default:
			sb.WriteString(v.Kind().String() + ";")
		}
	}
	for _, r := range roots {
		walk(reflect.ValueOf(r), 0)
		sb.WriteString("|")
	}
	return sb.String()
}
