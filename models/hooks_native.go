package models

import (
	"math"
	"unicode"
)

// verifUnicodeIsPrint: natively the real unicode.IsPrint; the engine replaces calls to it by
// the interval intrinsic built from the host's unicode tables.
func verifUnicodeIsPrint(r rune) bool { return unicode.IsPrint(r) }

func verifNaN() float64           { return math.NaN() }
func verifInf() float64           { return math.Inf(1) }
func verifSignbit(x float64) bool { return math.Signbit(x) }

func verifUnicodeIsSpace(r rune) bool { return unicode.IsSpace(r) }

// verifModelUnsupported: an input outside a model's stated domain. The engine aborts the path as
// unsupported (never a verdict); natively this cannot be reached through a model.
func verifModelUnsupported(msg string) { panic("verif model: " + msg) }
