package models

import "unicode"

// verifUnicodeIsPrint: natively the real unicode.IsPrint; the engine replaces calls to it by
// the interval intrinsic built from the host's unicode tables.
func verifUnicodeIsPrint(r rune) bool { return unicode.IsPrint(r) }
