package models

// Native differential validation of the comparison-only stdlib models against the real
// functions: exhaustive over all inputs of <= 2 bytes, plus structured 3- and 4-byte inputs
// covering every UTF-8 lead-byte class and boundary continuation bytes.

import (
	"bytes"
	"strings"
	"testing"
	"unicode/utf8"
)

var interesting = []byte{0x00, 0x01, 0x20, 0x7f, 0x80, 0x8f, 0x90, 0x9f, 0xa0, 0xbf, 0xc0, 0xc1, 0xc2, 0xdf, 0xe0, 0xe1, 0xec, 0xed, 0xee, 0xef,
	0xf0, 0xf1, 0xf3, 0xf4, 0xf5, 0xff, '<', '>', '&', '"', '\'', '\\', '\n', '\r', 'a'}

func inputs() []string {
	var out []string
	out = append(out, "")
	for a := 0; a < 256; a++ {
		out = append(out, string([]byte{byte(a)}))
		for b := 0; b < 256; b++ {
			out = append(out, string([]byte{byte(a), byte(b)}))
		}
	}
	for _, a := range interesting {
		for _, b := range interesting {
			for _, c := range interesting {
				out = append(out, string([]byte{a, b, c}))
				for _, d := range []byte{0x00, 0x7f, 0x80, 0xbf, 0xc0, 'a', 0xf0} {
					out = append(out, string([]byte{a, b, c, d}))
				}
			}
		}
	}
	return out
}

func TestDecodeRuneInString(t *testing.T) {
	for _, s := range inputs() {
		r1, n1 := utf8.DecodeRuneInString(s)
		r2, n2 := verifModel_utf8_DecodeRuneInString(s)
		if r1 != r2 || n1 != n2 {
			t.Fatalf("DecodeRuneInString(%q): real (%x,%d) model (%x,%d)", s, r1, n1, r2, n2)
		}
		r3, n3 := verifModel_utf8_DecodeRune([]byte(s))
		if r1 != r3 || n1 != n3 {
			t.Fatalf("DecodeRune(%q): real (%x,%d) model (%x,%d)", s, r1, n1, r3, n3)
		}
	}
}

func TestIndex(t *testing.T) {
	ins := inputs()
	for _, s := range ins {
		for _, c := range interesting {
			if a, b := strings.IndexByte(s, c), verifModel_bytealg_IndexByteString(s, c); a != b {
				t.Fatalf("IndexByteString(%q,%x): %d vs %d", s, c, a, b)
			}
			if a, b := bytes.IndexByte([]byte(s), c), verifModel_bytealg_IndexByte([]byte(s), c); a != b {
				t.Fatalf("IndexByte(%q,%x): %d vs %d", s, c, a, b)
			}
		}
	}
	small := []string{"", "a", "<", "ab", "a<", "<a", "aa", "\n", "*/", "//", "{", "}}", "/*"}
	for _, s := range ins {
		if len(s) > 3 {
			continue
		}
		for _, sub := range small {
			if sub == "" {
				continue
			}
			if a, b := strings.Index(s+"x"+s, sub), verifModel_bytealg_IndexString(s+"x"+s, sub); a != b {
				t.Fatalf("IndexString(%q,%q): %d vs %d", s, sub, a, b)
			}
		}
	}
	for _, a := range ins[:3000] {
		for _, b := range []string{"", "a", a, a + "x", "\x00"} {
			if x, y := bytes.Equal([]byte(a), []byte(b)), verifModel_bytealg_Equal([]byte(a), []byte(b)); x != y {
				t.Fatalf("Equal(%q,%q)", a, b)
			}
		}
	}
}
