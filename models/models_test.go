package models

// Native differential validation of the comparison-only stdlib models against the real
// functions: exhaustive over all inputs of <= 2 bytes, plus structured 3- and 4-byte inputs
// covering every UTF-8 lead-byte class and boundary continuation bytes.

import (
	"bytes"
	"encoding/json"
	"math"
	"net/url"
	"sort"
	"strings"
	"testing"
	"text/template"
	"unicode/utf8"
)

var interesting = []byte{0x00, 0x01, 0x20, 0x7f, 0x80, 0x8f, 0x90, 0x9f, 0xa0, 0xbf, 0xc0, 0xc1, 0xc2, 0xdf, 0xe0, 0xe1, 0xec, 0xed, 0xee, 0xef,
	0xf0, 0xf1, 0xf3, 0xf4, 0xf5, 0xff, '<', '>', '&', '"', '\'', '\\', '\n', '\r', 'a'}

func inputs() []string {
	var out []string
	out = append(out, "")
	for a := 0; a < 256; a++ {
		out = append(out, string([]byte{byte(a)}))
		for b := 0; b < 256; b++ {
			out = append(out, string([]byte{byte(a), byte(b)}))
		}
	}
	for _, a := range interesting {
		for _, b := range interesting {
			for _, c := range interesting {
				out = append(out, string([]byte{a, b, c}))
				for _, d := range []byte{0x00, 0x7f, 0x80, 0xbf, 0xc0, 'a', 0xf0} {
					out = append(out, string([]byte{a, b, c, d}))
				}
			}
		}
	}
	return out
}

func TestDecodeRuneInString(t *testing.T) {
	for _, s := range inputs() {
		r1, n1 := utf8.DecodeRuneInString(s)
		r2, n2 := verifModel_utf8_DecodeRuneInString(s)
		if r1 != r2 || n1 != n2 {
			t.Fatalf("DecodeRuneInString(%q): real (%x,%d) model (%x,%d)", s, r1, n1, r2, n2)
		}
		r3, n3 := verifModel_utf8_DecodeRune([]byte(s))
		if r1 != r3 || n1 != n3 {
			t.Fatalf("DecodeRune(%q): real (%x,%d) model (%x,%d)", s, r1, n1, r3, n3)
		}
	}
}

func TestIndex(t *testing.T) {
	ins := inputs()
	for _, s := range ins {
		for _, c := range interesting {
			if a, b := strings.IndexByte(s, c), verifModel_bytealg_IndexByteString(s, c); a != b {
				t.Fatalf("IndexByteString(%q,%x): %d vs %d", s, c, a, b)
			}
			if a, b := bytes.IndexByte([]byte(s), c), verifModel_bytealg_IndexByte([]byte(s), c); a != b {
				t.Fatalf("IndexByte(%q,%x): %d vs %d", s, c, a, b)
			}
		}
	}
	small := []string{"", "a", "<", "ab", "a<", "<a", "aa", "\n", "*/", "//", "{", "}}", "/*"}
	for _, s := range ins {
		if len(s) > 3 {
			continue
		}
		for _, sub := range small {
			if sub == "" {
				continue
			}
			if a, b := strings.Index(s+"x"+s, sub), verifModel_bytealg_IndexString(s+"x"+s, sub); a != b {
				t.Fatalf("IndexString(%q,%q): %d vs %d", s, sub, a, b)
			}
		}
	}
	for _, a := range ins[:3000] {
		for _, b := range []string{"", "a", a, a + "x", "\x00"} {
			if x, y := bytes.Equal([]byte(a), []byte(b)), verifModel_bytealg_Equal([]byte(a), []byte(b)); x != y {
				t.Fatalf("Equal(%q,%q)", a, b)
			}
		}
	}
}

func TestEscapers(t *testing.T) {
	ins := inputs()
	ins = append(ins, "\u00e9", "\u2028", "\u2029", "\U0001F600", "a b", "\u200b", "\ufeff", "\U000E0001", "\u0085", "\u00a0x", "\u00ad")
	for _, s := range ins {
		if a, b := template.HTMLEscapeString(s), verifModel_template_HTMLEscapeString(s); a != b {
			t.Fatalf("HTMLEscapeString(%q): %q vs %q", s, a, b)
		}
		if a, b := template.JSEscapeString(s), verifModel_template_JSEscapeString(s); a != b {
			t.Fatalf("JSEscapeString(%q): %q vs %q", s, a, b)
		}
		var b1, b2 bytes.Buffer
		template.JSEscape(&b1, []byte(s))
		verifModel_template_JSEscape(&b2, []byte(s))
		if b1.String() != b2.String() {
			t.Fatalf("JSEscape(%q): %q vs %q", s, b1.String(), b2.String())
		}
		if jb, err := json.Marshal(s); err != nil || string(jb) != verifModel_json_quote(s) {
			t.Fatalf("json quote(%q): %q vs %q", s, jb, verifModel_json_quote(s))
		}
		if a, b := url.QueryEscape(s), verifModel_url_QueryEscape(s); a != b {
			t.Fatalf("QueryEscape(%q): %q vs %q", s, a, b)
		}
		if a, b := utf8.ValidString(s), verifModel_utf8_ValidString(s); a != b {
			t.Fatalf("ValidString(%q): %v vs %v", s, a, b)
		}
		if a, b := utf8.RuneCountInString(s), verifModel_utf8_RuneCountInString(s); a != b {
			t.Fatalf("RuneCountInString(%q): %v vs %v", s, a, b)
		}
		for _, chars := range []string{"'\"&<>\000", "a", "<>", ""} {
			if a, b := strings.IndexAny(s, chars), verifModel_strings_IndexAny(s, chars); a != b {
				t.Fatalf("IndexAny(%q,%q): %v vs %v", s, chars, a, b)
			}
		}
		for _, sub := range []string{"a", "<", "\n", "ab", "\x80"} {
			if a, b := strings.LastIndex(s+s, sub), verifModel_strings_LastIndex(s+s, sub); a != b {
				t.Fatalf("LastIndex(%q,%q)", s, sub)
			}
			if a, b := strings.HasPrefix(s, sub), verifModel_strings_HasPrefix(s, sub); a != b {
				t.Fatalf("HasPrefix(%q,%q)", s, sub)
			}
			if a, b := strings.HasSuffix(s, sub), verifModel_strings_HasSuffix(s, sub); a != b {
				t.Fatalf("HasSuffix(%q,%q)", s, sub)
			}
		}
		for _, w := range []string{s, " " + s + "\u00a0", "\u2003" + s + "\n", s + "\u0085 \u3000"} {
			if a, b := strings.TrimSpace(w), verifModel_strings_TrimSpace(w); a != b {
				t.Fatalf("TrimSpace(%q): %q vs %q", w, a, b)
			}
		}
	}
}

func TestRunes(t *testing.T) {
	rs := []rune{-1, 0, 1, 0x7f, 0x80, 0x7ff, 0x800, 0xd7ff, 0xd800, 0xdfff, 0xe000, 0xfffd, 0xffff, 0x10000, 0x10ffff, 0x110000, 0x7fffffff}
	for r := rune(0); r < 0x3000; r++ {
		rs = append(rs, r)
	}
	for _, r := range rs {
		if a, b := utf8.RuneLen(r), verifModel_utf8_RuneLen(r); a != b {
			t.Fatalf("RuneLen(%x)", r)
		}
		if a, b := utf8.AppendRune([]byte("x"), r), verifModel_utf8_AppendRune([]byte("x"), r); !bytes.Equal(a, b) {
			t.Fatalf("AppendRune(%x): %x vs %x", r, a, b)
		}
		var p, q [4]byte
		if a, b := utf8.EncodeRune(p[:], r), verifModel_utf8_EncodeRune(q[:], r); a != b || p != q {
			t.Fatalf("EncodeRune(%x)", r)
		}
	}
	for _, set := range []string{"+-", "0x", "0123456789ABCDEF", "0123456789", ".", "e", "*/%+-=!<>|&?:", ""} {
		for _, r := range rs {
			if a, b := strings.IndexRune(set, r), verifModel_strings_IndexRune(set, r); a != b {
				t.Fatalf("IndexRune(%q,%x): %d vs %d", set, r, a, b)
			}
		}
	}
	for b := 0; b < 256; b++ {
		if utf8.RuneStart(byte(b)) != verifModel_utf8_RuneStart(byte(b)) {
			t.Fatalf("RuneStart(%x)", b)
		}
	}
}

func TestSortStrings(t *testing.T) {
	ins := inputs()
	for i := 0; i+4 < 20000; i += 3 {
		a := []string{ins[i], ins[(i*7+1)%len(ins)], ins[(i*13+5)%len(ins)], ins[i+4]}
		b := append([]string{}, a...)
		sort.Strings(a)
		verifModel_sort_Strings(b)
		for k := range a {
			if a[k] != b[k] {
				t.Fatalf("sort.Strings: %q vs %q", a, b)
			}
		}
	}
}

func TestMinMax(t *testing.T) {
	vs := []float64{0, math.Copysign(0, -1), 1, -1, 0.5, math.Inf(1), math.Inf(-1), math.NaN(), math.MaxFloat64, -math.MaxFloat64, 5e-324, 3}
	for _, x := range vs {
		for _, y := range vs {
			if a, b := math.Max(x, y), verifModel_math_Max(x, y); math.Float64bits(a) != math.Float64bits(b) && !(a != a && b != b) {
				t.Fatalf("Max(%v,%v): %v vs %v", x, y, a, b)
			}
			if a, b := math.Min(x, y), verifModel_math_Min(x, y); math.Float64bits(a) != math.Float64bits(b) && !(a != a && b != b) {
				t.Fatalf("Min(%v,%v): %v vs %v", x, y, a, b)
			}
		}
	}
}
