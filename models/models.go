package models

import "io"

// Comparison-only model of unicode/utf8.DecodeRuneInString (no table lookups).
func verifModel_utf8_DecodeRuneInString(s string) (rune, int) {
	n := len(s)
	if n < 1 {
		return 0xFFFD, 0
	}
	s0 := s[0]
	if s0 < 0x80 {
		return rune(s0), 1
	}
	if s0 < 0xC2 || s0 > 0xF4 {
		return 0xFFFD, 1
	}
	if s0 < 0xE0 {
		if n < 2 {
			return 0xFFFD, 1
		}
		s1 := s[1]
		if s1 < 0x80 || s1 > 0xBF {
			return 0xFFFD, 1
		}
		return rune(s0&0x1F)<<6 | rune(s1&0x3F), 2
	}
	if s0 < 0xF0 {
		if n < 3 {
			return 0xFFFD, 1
		}
		s1, s2 := s[1], s[2]
		lo, hi := byte(0x80), byte(0xBF)
		if s0 == 0xE0 {
			lo = 0xA0
		} else if s0 == 0xED {
			hi = 0x9F
		}
		if s1 < lo || s1 > hi {
			return 0xFFFD, 1
		}
		if s2 < 0x80 || s2 > 0xBF {
			return 0xFFFD, 1
		}
		return rune(s0&0x0F)<<12 | rune(s1&0x3F)<<6 | rune(s2&0x3F), 3
	}
	if n < 4 {
		return 0xFFFD, 1
	}
	s1, s2, s3 := s[1], s[2], s[3]
	lo, hi := byte(0x80), byte(0xBF)
	if s0 == 0xF0 {
		lo = 0x90
	} else if s0 == 0xF4 {
		hi = 0x8F
	}
	if s1 < lo || s1 > hi {
		return 0xFFFD, 1
	}
	if s2 < 0x80 || s2 > 0xBF {
		return 0xFFFD, 1
	}
	if s3 < 0x80 || s3 > 0xBF {
		return 0xFFFD, 1
	}
	return rune(s0&0x07)<<18 | rune(s1&0x3F)<<12 | rune(s2&0x3F)<<6 | rune(s3&0x3F), 4
}

func verifModel_bytealg_IndexByteString(s string, c byte) int {
	for i := 0; i < len(s); i++ {
		if s[i] == c {
			return i
		}
	}
	return -1
}

func verifModel_bytealg_IndexByte(b []byte, c byte) int {
	for i := 0; i < len(b); i++ {
		if b[i] == c {
			return i
		}
	}
	return -1
}

func verifModel_bytealg_IndexString(a, b string) int {
	for i := 0; i+len(b) <= len(a); i++ {
		if a[i:i+len(b)] == b {
			return i
		}
	}
	return -1
}

func verifModel_bytealg_Equal(a, b []byte) bool {
	if len(a) != len(b) {
		return false
	}
	for i := range a {
		if a[i] != b[i] {
			return false
		}
	}
	return true
}

func verifModel_utf8_DecodeRune(p []byte) (rune, int) {
	return verifModel_utf8_DecodeRuneInString(string(p))
}

// ---- text/template escapers ----

func verifHexUpper(n byte) byte {
	if n < 10 {
		return '0' + n
	}
	return 'A' + n - 10
}

func verifModel_template_HTMLEscapeString(s string) string {
	var out []byte
	for i := 0; i < len(s); i++ {
		switch s[i] {
		case 0:
			out = append(out, 0xEF, 0xBF, 0xBD)
		case '"':
			out = append(out, '&', '#', '3', '4', ';')
		case '\'':
			out = append(out, '&', '#', '3', '9', ';')
		case '&':
			out = append(out, '&', 'a', 'm', 'p', ';')
		case '<':
			out = append(out, '&', 'l', 't', ';')
		case '>':
			out = append(out, '&', 'g', 't', ';')
		default:
			out = append(out, s[i])
		}
	}
	return string(out)
}

// verifIsPrintHook is replaced by the engine with the interval intrinsic for unicode.IsPrint;
// natively it is the real function.
func verifModel_template_JSEscapeString(s string) string {
	var out []byte
	for i := 0; i < len(s); i++ {
		c := s[i]
		if c < 0x80 {
			switch {
			case c == '\\':
				out = append(out, '\\', '\\')
			case c == '\'':
				out = append(out, '\\', '\'')
			case c == '"':
				out = append(out, '\\', '"')
			case c == '<':
				out = append(out, '\\', 'u', '0', '0', '3', 'C')
			case c == '>':
				out = append(out, '\\', 'u', '0', '0', '3', 'E')
			case c == '&':
				out = append(out, '\\', 'u', '0', '0', '2', '6')
			case c == '=':
				out = append(out, '\\', 'u', '0', '0', '3', 'D')
			case c < ' ':
				out = append(out, '\\', 'u', '0', '0', verifHexUpper(c>>4), verifHexUpper(c&0x0f))
			default:
				out = append(out, c)
			}
			continue
		}
		r, size := verifModel_utf8_DecodeRuneInString(s[i:])
		if verifUnicodeIsPrint(r) {
			out = append(out, s[i:i+size]...)
		} else {
			out = append(out, '\\', 'u')
			if r > 0xFFFF {
				if r > 0xFFFFF {
					out = append(out, verifHexUpper(byte(r>>20)&0x0f))
				}
				out = append(out, verifHexUpper(byte(r>>16)&0x0f))
			}
			out = append(out, verifHexUpper(byte(r>>12)&0x0f), verifHexUpper(byte(r>>8)&0x0f), verifHexUpper(byte(r>>4)&0x0f), verifHexUpper(byte(r)&0x0f))
		}
		i += size - 1
	}
	return string(out)
}

// ---- net/url ----

func verifURLUnreserved(c byte) bool {
	return 'a' <= c && c <= 'z' || 'A' <= c && c <= 'Z' || '0' <= c && c <= '9' || c == '-' || c == '_' || c == '.' || c == '~'
}

func verifModel_url_QueryEscape(s string) string {
	var out []byte
	for i := 0; i < len(s); i++ {
		c := s[i]
		switch {
		case c == ' ':
			out = append(out, '+')
		case verifURLUnreserved(c):
			out = append(out, c)
		default:
			out = append(out, '%', verifHexUpper(c>>4), verifHexUpper(c&15))
		}
	}
	return string(out)
}

// ---- strings ----

func verifModel_strings_ContainsAny(s, chars string) bool {
	return verifModel_strings_IndexAny(s, chars) >= 0
}

// IndexAny for ASCII-only chars (all call sites in soy and text/template); a non-ASCII
// byte in s can then never match.
func verifModel_strings_IndexAny(s, chars string) int {
	for i := 0; i < len(chars); i++ {
		if chars[i] >= 0x80 {
			verifModelUnsupported("strings.IndexAny with non-ASCII chars is not modelled")
		}
	}
	for i := 0; i < len(s); i++ {
		for j := 0; j < len(chars); j++ {
			if s[i] == chars[j] {
				return i
			}
		}
	}
	return -1
}

func verifModel_strings_HasPrefix(s, prefix string) bool {
	return len(s) >= len(prefix) && s[:len(prefix)] == prefix
}

func verifModel_strings_HasSuffix(s, suffix string) bool {
	return len(s) >= len(suffix) && s[len(s)-len(suffix):] == suffix
}

func verifModel_strings_Index(s, sub string) int { return verifModel_bytealg_IndexString2(s, sub) }

func verifModel_bytealg_IndexString2(a, b string) int {
	for i := 0; i+len(b) <= len(a); i++ {
		if a[i:i+len(b)] == b {
			return i
		}
	}
	return -1
}

func verifModel_strings_Contains(s, sub string) bool {
	return verifModel_bytealg_IndexString2(s, sub) >= 0
}

func verifModel_strings_IndexByte(s string, c byte) int {
	return verifModel_bytealg_IndexByteString(s, c)
}

func verifModel_strings_LastIndex(s, sub string) int {
	for i := len(s) - len(sub); i >= 0; i-- {
		if s[i:i+len(sub)] == sub {
			return i
		}
	}
	return -1
}

func verifIsASCIISpace(c byte) bool {
	return c == ' ' || c == '\t' || c == '\n' || c == '\v' || c == '\f' || c == '\r'
}

// TrimSpace: one forward scan decoding runes (invalid bytes decode to U+FFFD, which is not a space).
func verifModel_strings_TrimSpace(s string) string {
	start, end := -1, 0
	for i := 0; i < len(s); {
		var r rune
		n := 1
		if s[i] < 0x80 {
			r = rune(s[i])
		} else {
			r, n = verifModel_utf8_DecodeRuneInString(s[i:])
		}
		if !verifUnicodeIsSpace(r) {
			if start < 0 {
				start = i
			}
			end = i + n
		}
		i += n
	}
	if start < 0 {
		return ""
	}
	return s[start:end]
}

func verifModel_utf8_RuneStart(b byte) bool { return b&0xC0 != 0x80 }

func verifModel_utf8_RuneLen(r rune) int {
	switch {
	case r < 0:
		return -1
	case r <= 0x7F:
		return 1
	case r <= 0x7FF:
		return 2
	case 0xD800 <= r && r <= 0xDFFF:
		return -1
	case r <= 0xFFFF:
		return 3
	case r <= 0x10FFFF:
		return 4
	}
	return -1
}

func verifModel_utf8_AppendRune(p []byte, r rune) []byte {
	switch {
	case r >= 0 && r <= 0x7F:
		return append(p, byte(r))
	case r >= 0 && r <= 0x7FF:
		return append(p, 0xC0|byte(r>>6), 0x80|byte(r)&0x3F)
	case r < 0 || r > 0x10FFFF || (0xD800 <= r && r <= 0xDFFF):
		return append(p, 0xEF, 0xBF, 0xBD)
	case r <= 0xFFFF:
		return append(p, 0xE0|byte(r>>12), 0x80|byte(r>>6)&0x3F, 0x80|byte(r)&0x3F)
	default:
		return append(p, 0xF0|byte(r>>18), 0x80|byte(r>>12)&0x3F, 0x80|byte(r>>6)&0x3F, 0x80|byte(r)&0x3F)
	}
}

func verifModel_utf8_EncodeRune(p []byte, r rune) int {
	b := verifModel_utf8_AppendRune(nil, r)
	_ = p[len(b)-1]
	copy(p, b)
	return len(b)
}

func verifModel_utf8_ValidString(s string) bool {
	for i := 0; i < len(s); {
		if s[i] < 0x80 {
			i++
			continue
		}
		r, n := verifModel_utf8_DecodeRuneInString(s[i:])
		if r == 0xFFFD && n == 1 {
			return false
		}
		i += n
	}
	return true
}

func verifModel_utf8_RuneCountInString(s string) int {
	n := 0
	for i := 0; i < len(s); n++ {
		if s[i] < 0x80 {
			i++
			continue
		}
		_, sz := verifModel_utf8_DecodeRuneInString(s[i:])
		i += sz
	}
	return n
}

// IndexRune for ASCII-only s (every call site in soy passes a literal ASCII set): r matches only
// as a single byte; utf8.RuneError and invalid runes cannot occur in an ASCII string.
func verifModel_strings_IndexRune(s string, r rune) int {
	for i := 0; i < len(s); i++ {
		if s[i] >= 0x80 {
			verifModelUnsupported("strings.IndexRune with non-ASCII s is not modelled")
		}
		if rune(s[i]) == r {
			return i
		}
	}
	return -1
}

// sort.Strings as an insertion sort (same result: the sorted permutation is unique up to
// equal elements, which are indistinguishable strings).
func verifModel_sort_Strings(x []string) {
	for i := 1; i < len(x); i++ {
		for j := i; j > 0 && x[j] < x[j-1]; j-- {
			x[j], x[j-1] = x[j-1], x[j]
		}
	}
}

// ---- math.Max / math.Min (the portable Go versions; amd64 uses assembly) ----

func verifModel_math_Max(x, y float64) float64 {
	switch {
	case x > 1.79769313486231570814527423731704356798070e+308 || y > 1.79769313486231570814527423731704356798070e+308:
		return verifInf()
	case x != x || y != y:
		return verifNaN()
	case x == 0 && x == y:
		if verifSignbit(x) {
			return y
		}
		return x
	}
	if x > y {
		return x
	}
	return y
}

func verifModel_math_Min(x, y float64) float64 {
	switch {
	case x < -1.79769313486231570814527423731704356798070e+308 || y < -1.79769313486231570814527423731704356798070e+308:
		return -verifInf()
	case x != x || y != y:
		return verifNaN()
	case x == 0 && x == y:
		if verifSignbit(x) {
			return x
		}
		return y
	}
	if x < y {
		return x
	}
	return y
}

// text/template.JSEscape: same bytes as the real function (written with one Write call).
func verifModel_template_JSEscape(w io.Writer, b []byte) {
	w.Write([]byte(verifModel_template_JSEscapeString(string(b))))
}

// ---- encoding/json: the encoding of a string (json.Marshal with default HTML escaping) ----

func verifHexLower(n byte) byte {
	if n < 10 {
		return '0' + n
	}
	return 'a' + n - 10
}

func verifModel_json_quote(s string) string {
	out := []byte{'"'}
	for i := 0; i < len(s); {
		c := s[i]
		if c < 0x80 {
			switch {
			case c == '"':
				out = append(out, '\\', '"')
			case c == '\\':
				out = append(out, '\\', '\\')
			case c == '\n':
				out = append(out, '\\', 'n')
			case c == '\r':
				out = append(out, '\\', 'r')
			case c == '\t':
				out = append(out, '\\', 't')
			case c == '\b':
				out = append(out, '\\', 'b')
			case c == '\f':
				out = append(out, '\\', 'f')
			case c < 0x20:
				out = append(out, '\\', 'u', '0', '0', verifHexLower(c>>4), verifHexLower(c&0xf))
			case c == '<' || c == '>' || c == '&':
				out = append(out, '\\', 'u', '0', '0', verifHexLower(c>>4), verifHexLower(c&0xf))
			default:
				out = append(out, c)
			}
			i++
			continue
		}
		r, n := verifModel_utf8_DecodeRuneInString(s[i:])
		switch {
		case r == 0xFFFD && n == 1:
			out = append(out, '\\', 'u', 'f', 'f', 'f', 'd')
		case r == 0x2028:
			out = append(out, '\\', 'u', '2', '0', '2', '8')
		case r == 0x2029:
			out = append(out, '\\', 'u', '2', '0', '2', '9')
		default:
			out = append(out, s[i:i+n]...)
		}
		i += n
	}
	return string(append(out, '"'))
}
