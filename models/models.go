package models

// Comparison-only model of unicode/utf8.DecodeRuneInString (no table lookups).
func verifModel_utf8_DecodeRuneInString(s string) (rune, int) {
	n := len(s)
	if n < 1 {
		return 0xFFFD, 0
	}
	s0 := s[0]
	if s0 < 0x80 {
		return rune(s0), 1
	}
	if s0 < 0xC2 || s0 > 0xF4 {
		return 0xFFFD, 1
	}
	if s0 < 0xE0 {
		if n < 2 {
			return 0xFFFD, 1
		}
		s1 := s[1]
		if s1 < 0x80 || s1 > 0xBF {
			return 0xFFFD, 1
		}
		return rune(s0&0x1F)<<6 | rune(s1&0x3F), 2
	}
	if s0 < 0xF0 {
		if n < 3 {
			return 0xFFFD, 1
		}
		s1, s2 := s[1], s[2]
		lo, hi := byte(0x80), byte(0xBF)
		if s0 == 0xE0 {
			lo = 0xA0
		} else if s0 == 0xED {
			hi = 0x9F
		}
		if s1 < lo || s1 > hi {
			return 0xFFFD, 1
		}
		if s2 < 0x80 || s2 > 0xBF {
			return 0xFFFD, 1
		}
		return rune(s0&0x0F)<<12 | rune(s1&0x3F)<<6 | rune(s2&0x3F), 3
	}
	if n < 4 {
		return 0xFFFD, 1
	}
	s1, s2, s3 := s[1], s[2], s[3]
	lo, hi := byte(0x80), byte(0xBF)
	if s0 == 0xF0 {
		lo = 0x90
	} else if s0 == 0xF4 {
		hi = 0x8F
	}
	if s1 < lo || s1 > hi {
		return 0xFFFD, 1
	}
	if s2 < 0x80 || s2 > 0xBF {
		return 0xFFFD, 1
	}
	if s3 < 0x80 || s3 > 0xBF {
		return 0xFFFD, 1
	}
	return rune(s0&0x07)<<18 | rune(s1&0x3F)<<12 | rune(s2&0x3F)<<6 | rune(s3&0x3F), 4
}

func verifModel_bytealg_IndexByteString(s string, c byte) int {
	for i := 0; i < len(s); i++ {
		if s[i] == c {
			return i
		}
	}
	return -1
}

func verifModel_bytealg_IndexByte(b []byte, c byte) int {
	for i := 0; i < len(b); i++ {
		if b[i] == c {
			return i
		}
	}
	return -1
}

func verifModel_bytealg_IndexString(a, b string) int {
	for i := 0; i+len(b) <= len(a); i++ {
		if a[i:i+len(b)] == b {
			return i
		}
	}
	return -1
}

func verifModel_bytealg_Equal(a, b []byte) bool {
	if len(a) != len(b) {
		return false
	}
	for i := range a {
		if a[i] != b[i] {
			return false
		}
	}
	return true
}


func verifModel_utf8_DecodeRune(p []byte) (rune, int) {
	return verifModel_utf8_DecodeRuneInString(string(p))
}
