module verifmodels

go 1.23
