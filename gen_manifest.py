#!/usr/bin/env python3
"""Generates MANIFEST.json from checks.py (single source of truth for the check table)."""
import json, os, sys
sys.path.insert(0, os.path.dirname(os.path.abspath(__file__)))
import checks

ROOT = os.path.dirname(os.path.abspath(__file__))
man = {
    "version": 1,
    "setup_cmd": "./vcheck --setup",
    "hooks": {
        "guard": "verif",
        "enable": "go build tag `verif` (-tags verif); harness files are injected by -overlay, nothing is written into /repo",
        "baseline_off_cmd": "cd /repo && go test -vet=off -count=1 -timeout 25m ./...",
        "source_commits": checks.HOOK_COMMITS,
        "add_only": True,
    },
    "engines": [{
        "name": "gosym",
        "path": "engine/",
        "serves_properties": sorted(checks.PROPS),
        "kind_free_text": "own symbolic interpreter of go/ssa (golang.org/x/tools v0.29.0) -> hash-consed SMT-LIB2 bit-vector/FP terms -> z3 -in (cross-checked with z3 5.1.0 and cvc5); generational path exploration, native replay of every counterexample through `go test -overlay`",
    }],
    "checks": [],
    "not_applicable": checks.NOT_APPLICABLE,
    "notes": "All checks decide their property by bounded symbolic execution of the real code of /repo (rebuilt from the working tree on every run) with an SMT solver discharging every path; bounds are in each evidence file. See DESIGN.md.",
}
allids = [json.loads(l)["id"] for l in open(os.path.join(ROOT, "properties.jsonl")) if l.strip()]
na = {n["property_id"] for n in man["not_applicable"]}
man["not_applicable"] = [n for n in man["not_applicable"] if n["property_id"] not in checks.PROPS]
for pid in allids:
    if pid not in checks.PROPS and pid not in na:
        man["not_applicable"].append({"property_id": pid, "reason": "check not built yet (work in progress); see DESIGN.md §4 for the design"})
for pid in sorted(checks.PROPS):
    p = checks.PROPS[pid]
    c = {
        "property_id": pid,
        "quick_cmd": "./vcheck %s quick" % pid,
        "thorough_cmd": "./vcheck %s thorough" % pid,
        "evidence_file": "evidence/%s.json" % pid,
        "replay_cmd_template": "./vcheck --replay {path}",
        "engine": "gosym",
        "level_claimed": {"category": "model_checking", "text": p["level_text"], "design_ref": "DESIGN.md §4 " + pid},
        "level_note": p["level_note"],
        "technique": p.get("technique", "bounded symbolic execution of the go/ssa form of the real code; SMT (z3) decides every path over the symbolic inputs; counterexamples replayed natively (jobs listed with 0 queries in the evidence have no symbolic input: they are concrete runs of the same harnesses through the same engine and only widen the dictionary)"),
    }
    man["checks"].append(c)
json.dump(man, open(os.path.join(ROOT, "MANIFEST.json"), "w"), indent=1)
print("wrote MANIFEST.json with", len(man["checks"]), "checks")
