#!/usr/bin/env python3
"""vcheck: driver of the solver-based checks for robfig/soy.

  vcheck <ID> quick|thorough      run the check of one property, write evidence/<ID>.json
  vcheck --replay <file>          re-run a stored counterexample natively
  vcheck --setup                  build the engine, validate the stdlib models, self-test

Exit codes: 0 property held on everything explored (known findings are only listed),
1 a reproduced violation that is not a listed known finding (VIOLATION line printed),
2 machinery failure (never a property verdict).
"""
import concurrent.futures as cf
import json
import os
import re
import shutil
import subprocess
import sys
import tempfile
import threading
import time

ROOT = os.path.dirname(os.path.abspath(__file__))
REPO = os.environ.get("VERIF_REPO", "/repo")
GOSYM = os.path.join(ROOT, "bin", "gosym")
MODPATH = "github.com/robfig/soy"
GOENV = dict(os.environ, GOFLAGS="-mod=mod", GOPROXY="off", GOSUMDB="off", GOTOOLCHAIN="local")
CORES = int(os.environ.get("VERIF_CORES", "16"))

sys.path.insert(0, ROOT)


def log(*a):
    print(*a, file=sys.stderr, flush=True)


class MachineryError(Exception):
    pass


# ---------------------------------------------------------------- overlay / native build

def pkg_name(pkgdir):
    """Go package name of /repo/<pkgdir>."""
    d = os.path.join(REPO, pkgdir)
    for f in sorted(os.listdir(d)):
        if f.endswith(".go") and not f.endswith("_test.go"):
            for line in open(os.path.join(d, f)):
                m = re.match(r"package\s+(\w+)", line)
                if m:
                    return m.group(1)
    raise MachineryError("no package in " + d)


HARNESS_RE = re.compile(r"^func (H_\w+)\(([^)]*)\)", re.M)


def harness_dir(pkgdir):
    return os.path.join(ROOT, "harness", pkgdir.replace("/", "_") if pkgdir != "." else "root")


def build_overlay(pkgdir, tmp):
    """Assemble the overlay directory for a package: runtime, models, harness files, registry."""
    name = pkg_name(pkgdir)
    out = os.path.join(tmp, "ov_" + (pkgdir.replace("/", "_") if pkgdir != "." else "root"))
    os.makedirs(out, exist_ok=True)

    def put(src, dst):
        s = open(src).read()
        s = re.sub(r"^package \w+", "package " + name, s, count=1, flags=re.M)
        open(os.path.join(out, dst), "w").write(s)

    put(os.path.join(ROOT, "harness", "rt", "zz_verif_rt.go"), "zz_verif_rt.go")
    put(os.path.join(ROOT, "harness", "rt", "zz_verif_replay_test.go"), "zz_verif_replay_test.go")
    put(os.path.join(ROOT, "models", "models.go"), "zz_verif_models.go")
    put(os.path.join(ROOT, "models", "hooks_native.go"), "zz_verif_hooks.go")
    hd = harness_dir(pkgdir)
    regs = []
    for f in sorted(os.listdir(hd)):
        if not f.endswith(".go"):
            continue
        src = open(os.path.join(hd, f)).read()
        shutil.copy(os.path.join(hd, f), os.path.join(out, f))
        for m in HARNESS_RE.finditer(src):
            hn, params = m.group(1), m.group(2).strip()
            conv = []
            i = 0
            if params:
                # expand "a, b int, s string"
                groups = [p.strip() for p in params.split(",")]
                names_types = []
                pending = []
                for g in groups:
                    parts = g.split()
                    if len(parts) == 1:
                        pending.append(parts[0])
                    else:
                        for pn in pending:
                            names_types.append((pn, parts[1]))
                        pending = []
                        names_types.append((parts[0], parts[1]))
                for _, ty in names_types:
                    if ty == "int":
                        conv.append("verifAtoi(a[%d])" % i)
                    elif ty == "string":
                        conv.append("a[%d]" % i)
                    elif ty == "bool":
                        conv.append('a[%d] == "true"' % i)
                    else:
                        raise MachineryError("harness %s: unsupported param type %s" % (hn, ty))
                    i += 1
            regs.append('\t"%s": func(a []string) { %s(%s) },' % (hn, hn, ", ".join(conv)))
    # native digest of the package's own package-level variables (confirms engine findings about
    # state kept in globals, e.g. a cache that starts out empty)
    pdir = os.path.join(REPO, pkgdir)
    r = subprocess.run([GOSYM, "-listglobals", pdir], capture_output=True, text=True)
    if r.returncode != 0:
        raise MachineryError("listglobals %s: %s" % (pkgdir, r.stderr[-300:]))
    gl = [g for g in r.stdout.split() if g]
    open(os.path.join(out, "zz_verif_globals.go"), "w").write(
        "package %s\n\n// verifGlobalsDigest: digest of every package-level variable of this package.\nfunc verifGlobalsDigest() string {\n\treturn verifDeepDigest(%s)\n}\n"
        % (name, ", ".join("&" + g for g in gl)))
    reg = "package %s\n\nvar verifHarnesses = map[string]func(a []string){\n%s\n}\n" % (name, "\n".join(regs))
    open(os.path.join(out, "zz_verif_registry_test.go"), "w").write(reg)
    return out


_native_lock = threading.Lock()
_native_bins = {}


def native_binary(pkgdir, ovdir, tmp, race=False):
    """go test -c of /repo/<pkgdir> with the overlay; cached per run. race=True: built with the
    race detector (used to confirm happens-before findings of the engine)."""
    with _native_lock:
        key = pkgdir + ("|race" if race else "")
        if key in _native_bins:
            return _native_bins[key]
        repl = {}
        for f in os.listdir(ovdir):
            repl[os.path.join(REPO, pkgdir, f)] = os.path.join(ovdir, f)
        ovjson = os.path.join(tmp, "overlay_%s.json" % (pkgdir.replace("/", "_") or "root"))
        json.dump({"Replace": repl}, open(ovjson, "w"))
        binp = os.path.join(tmp, "replay_%s%s.test" % (pkgdir.replace("/", "_") or "root", "_race" if race else ""))
        t0 = time.time()
        r = subprocess.run(["go", "test", "-c"] + (["-race"] if race else []) + ["-tags", "verif", "-vet=off", "-overlay", ovjson, "-o", binp,
                            "./" + pkgdir], cwd=REPO, env=GOENV, capture_output=True, text=True)
        if r.returncode != 0:
            raise MachineryError("native build of %s failed:\n%s%s" % (pkgdir, r.stdout, r.stderr))
        log("  native build %s: %.1fs" % (pkgdir, time.time() - t0))
        _native_bins[key] = binp
        return binp


TAPE_KINDS = ("b", "i", "u", "r", "p", "f", "c")  # kinds consumed by the native runtime ("m", "e": engine-only)


def write_tape(path, harness, args, inputs):
    inputs = inputs or []
    with open(path, "w") as f:
        f.write(harness + "\n" + args + "\n")
        for iv in inputs:
            if iv["kind"] in TAPE_KINDS:
                f.write("%d\n" % iv["val"])


OBS_RE = re.compile(r'^VERIF-OBS ("(?:[^"\\]|\\.)*") ("(?:[^"\\]|\\.)*")$', re.M)
FAIL_RE = re.compile(r'^VERIF-ASSERT-FAIL ("(?:[^"\\]|\\.)*")$', re.M)


def go_unquote(s):
    # Go %q output -> python string (bytes preserved through latin-1 for \xNN)
    out = []
    i = 1
    while i < len(s) - 1:
        c = s[i]
        if c != "\\":
            out.append(c)
            i += 1
            continue
        n = s[i + 1]
        i += 2
        if n == "x":
            out.append(chr(0xDC00 + int(s[i:i + 2], 16)))  # raw byte marker
            i += 2
        elif n == "u":
            out.append(chr(int(s[i:i + 4], 16)))
            i += 4
        elif n == "U":
            out.append(chr(int(s[i:i + 8], 16)))
            i += 8
        elif n in "01234567":
            out.append(chr(0xDC00 + int(s[i - 1:i + 2], 8)))
            i += 2
        else:
            out.append({"n": "\n", "t": "\t", "r": "\r", "a": "\a", "b": "\b", "f": "\f", "v": "\v", "\\": "\\",
                        '"': '"', "'": "'"}[n])
    return "".join(out)


def to_bytes(s):
    """string with raw-byte markers -> bytes"""
    b = bytearray()
    for ch in s:
        o = ord(ch)
        if 0xDC00 <= o <= 0xDCFF:
            b.append(o - 0xDC00)
        else:
            b.extend(ch.encode("utf-8", "surrogatepass"))
    return bytes(b)


def engine_obs_bytes(s):
    """The engine emits observation strings through Go's encoding/json, which replaces invalid
    UTF-8 by U+FFFD; to stay exact the engine hex-encodes (see gosym Obs) -> here we decode."""
    return bytes.fromhex(s)


def native_run(binp, tape, timeout=10.0, confirm_frozen=False):
    """Returns dict(status, msg, obs, out). status: done | assert | assume | panic | hang | error"""
    env = dict(os.environ, VERIF_TAPE=tape)
    if confirm_frozen:
        # the harness then also compares a digest of the package-level variables before/after
        env["VERIF_CONFIRM_FROZEN"] = "1"
    try:
        r = subprocess.run([binp, "-test.run", "^TestVerifReplay$", "-test.timeout", "0"], env=env, capture_output=True,
                           timeout=timeout, cwd=os.path.dirname(binp))
    except subprocess.TimeoutExpired as e:
        return {"status": "hang", "msg": "still running after %.0fs" % timeout, "obs": [], "out": (e.stdout or b"").decode("latin-1")[-2000:], "race": False}
    out = r.stdout.decode("utf-8", "surrogateescape") + r.stderr.decode("utf-8", "surrogateescape")
    obs = [(to_bytes(go_unquote(a)), to_bytes(go_unquote(b))) for a, b in OBS_RE.findall(out)]
    res = {"obs": obs, "out": out[-3000:], "msg": "", "race": "WARNING: DATA RACE" in out}
    m = FAIL_RE.search(out)
    if r.returncode == 41 and m:
        res["status"] = "assert"
        res["msg"] = to_bytes(go_unquote(m.group(1))).decode("utf-8", "replace")
    elif r.returncode == 42:
        res["status"] = "assume"
    elif r.returncode == 43:
        res["status"] = "error"
    elif "VERIF-DONE" in out and r.returncode == 0:
        res["status"] = "done"
    elif "panic:" in out or "fatal error:" in out or "runtime error" in out:
        res["status"] = "panic"
        pm = re.search(r"^(panic: .*|fatal error: .*)$", out, re.M)
        res["msg"] = pm.group(1) if pm else ""
    else:
        res["status"] = "error"
    return res


# ---------------------------------------------------------------- jobs

class Job:
    """One gosym invocation: a harness of a package over a set of integer argument tuples."""

    def __init__(self, pkg, harness, args="", tier="quick", workers=4, maxsteps=None, init=None, maporder=None,
                 timeout=None, maxpaths=None, qtimeout=None, allow_unsupported=(), allow_inconclusive=False,
                 maxfan=None, note="", witnesses=40, native=True, order_repeats=0, no_complete_ok=False, hang_timeout=5.0, per_map_site=None):
        self.pkg, self.harness, self.args, self.tier = pkg, harness, str(args), tier
        self.workers, self.maxsteps, self.init, self.maporder = workers, maxsteps, init, maporder
        self.timeout, self.maxpaths, self.qtimeout = timeout, maxpaths, qtimeout
        self.allow_unsupported, self.allow_inconclusive = allow_unsupported, allow_inconclusive
        self.maxfan, self.note, self.witnesses, self.native = maxfan, note, witnesses, native
        self.order_repeats, self.no_complete_ok, self.hang_timeout = order_repeats, no_complete_ok, hang_timeout
        self.per_map_site = per_map_site

    def key(self):
        k = "%s/%s(%s)" % (self.pkg, self.harness, self.args)
        if self.maporder:
            k += "@order=" + self.maporder
        return k


DEFAULT_INIT = ",".join(MODPATH + "/" + p for p in
                        ["ast", "data", "errortypes", "parse", "parsepasses", "soyhtml", "soyjs", "soymsg", "soymsg/pomsg",
                         "template"]) + "," + MODPATH


SOLVER = os.environ.get("VERIF_SOLVER", "z3-new")


def run_gosym(job, ovdir, tmp, solver=None):
    solver = solver or SOLVER
    out = os.path.join(tmp, "res_%d.json" % (abs(hash((job.key(), solver))) % 10**9))
    cmd = [GOSYM, "-dir", REPO, "-pkg", "./" + job.pkg if job.pkg != "." else ".", "-overlay", ovdir, "-harness", job.harness,
           "-workers", str(job.workers), "-out", out, "-init", job.init or DEFAULT_INIT, "-witnesses", str(job.witnesses),
           "-solver", solver]
    if job.args != "":
        cmd += ["-args", job.args]
    if job.maxsteps:
        cmd += ["-maxsteps", str(job.maxsteps)]
    if job.maporder:
        cmd += ["-maporder", job.maporder]
    if job.timeout:
        cmd += ["-timeout", "%ds" % job.timeout]
    if job.maxpaths:
        cmd += ["-maxpaths", str(job.maxpaths)]
    if job.qtimeout:
        cmd += ["-qtimeout", str(job.qtimeout)]
    if job.maxfan:
        cmd += ["-maxfan", str(job.maxfan)]
    t0 = time.time()
    r = subprocess.run(cmd, env=GOENV, capture_output=True, text=True)
    if r.returncode != 0 or not os.path.exists(out):
        raise MachineryError("gosym failed on %s (exit %d):\n%s\n%s" % (job.key(), r.returncode, r.stdout[-3000:], r.stderr[-3000:]))
    res = json.load(open(out))
    res["cmd_wall_s"] = time.time() - t0
    os.remove(out)
    return res


def load_known():
    p = os.path.join(ROOT, "known_findings.json")
    if not os.path.exists(p):
        return []
    return json.load(open(p)).get("findings", [])


def match_known(known, pid, job, v):
    for k in known:
        if k.get("status", "known") != "known" or k["property"] != pid:
            continue
        if k.get("harness") and k["harness"] != job.harness:
            continue
        if k.get("kind") and k["kind"] != v["kind"]:
            continue
        if k.get("args") is not None and not re.fullmatch(k["args"], v.get("args", "")):
            continue
        if k.get("msg") and not re.search(k["msg"], v["msg"]):
            continue
        return k
    return None


def decode_inputs(inputs):
    inputs = inputs or []
    """Human-readable rendering of a tape."""
    bs = bytearray()
    parts = []

    def flush():
        if bs:
            parts.append("bytes=" + repr(bytes(bs)))
            bs.clear()
    for iv in inputs:
        if iv["kind"] == "b":
            bs.append(iv["val"] & 0xFF)
            continue
        flush()
        k = iv["kind"]
        v = iv["val"]
        if k == "i" and v >= 1 << 63:
            v -= 1 << 64
        parts.append({"p": "bool", "i": "int", "c": "choice", "f": "f64bits", "m": "order", "u": "u32", "r": "rune", "e": "env", "s": "sched", "q": "runq"}[k] + "=" + str(v))
    flush()
    return " ".join(parts)


def run_check(pid, tier):
    import checks
    spec = checks.PROPS[pid]
    jobs = [j for j in spec["jobs"] if j.tier == "quick" or tier == "thorough"]
    # (the thorough tier runs every quick job plus the thorough ones: its coverage is a superset)
    only = os.environ.get("VERIF_ONLY")   # development aid: run the jobs matching a regex, write no evidence
    if only:
        jobs = [j for j in jobs if re.search(only, j.key())]
    seed = int(os.environ.get("VERIF_SEED", "0") or 0)
    t0 = time.time()
    tmp = tempfile.mkdtemp(prefix="vcheck_%s_" % pid)
    known = load_known()
    try:
        if not os.path.exists(GOSYM) or os.environ.get("VERIF_REBUILD"):
            build_engine()
        ovdirs = {}
        for j in jobs:
            if j.pkg not in ovdirs:
                ovdirs[j.pkg] = build_overlay(j.pkg, tmp)
        # native builds run in the background while the engine explores
        pool = cf.ThreadPoolExecutor(max_workers=CORES)
        nat_fut = {p: pool.submit(native_binary, p, ovdirs[p], tmp) for p in ovdirs}
        sem = threading.Semaphore(CORES)
        acq = threading.Lock()

        def run(j):
            n = min(j.workers, CORES)
            with acq:  # one acquirer at a time, otherwise two partial acquisitions deadlock
                for _ in range(n):
                    sem.acquire()
            try:
                return run_gosym(j, ovdirs[j.pkg], tmp)
            finally:
                for _ in range(n):
                    sem.release()
        futs = [(j, pool.submit(run, j)) for j in jobs]
        results = []
        import copy
        for j, f in futs:
            res = f.result()
            results.append((j, res))
            if j.per_map_site:
                # one further run per map-range site reached by the reference run (sites in the
                # soy packages matching the regex, with at least 2 keys), permuting that site only
                sites = sorted(s for s, n in (res.get("map_sites") or {}).items() if n >= 2 and re.search(j.per_map_site, s)
                               and "zz_verif" not in s)
                sub = []
                for s_ in sites:
                    j2 = copy.copy(j)
                    j2.maporder, j2.per_map_site, j2.note = s_, None, "permuting " + s_
                    sub.append((j2, pool.submit(run, j2)))
                futs.extend(sub)
            log("  %-60s paths=%-6d viol=%d unsup=%d inconc=%d q=%d %.1fs" % (
                j.key(), res["paths"], len(res["violations"] or []), res["unsupported"], res["inconclusive"], res["queries"], res["wall_s"]))

        cov = {"states": 0, "transitions": 0, "traces_validated_against_impl": 0, "samples": [], "queries": 0, "solver_s": 0.0,
               "infeasible_branches": 0, "inconclusive": 0, "unsupported_paths": 0, "ssa_steps": 0, "jobs": [],
               "functions_encoded": set(), "unsupported_reasons": [], "inconclusive_reasons": []}
        machinery = []
        violations = []   # (job, v, native result)
        known_hit = {}
        for j, res in results:
            cov["states"] += res["paths"]
            cov["transitions"] += res["decisions"]
            cov["queries"] += res["queries"]
            cov["solver_s"] += res["solver_s"]
            cov["infeasible_branches"] += res["infeasible"]
            cov["inconclusive"] += res["inconclusive"]
            cov["unsupported_paths"] += res["unsupported"]
            cov["ssa_steps"] += res["steps"]
            cov["functions_encoded"].update(res["functions"] or [])
            cov.setdefault("environment_stubs", set()).update(res.get("stubs") or [])
            cov["jobs"].append({"job": j.key(), "paths": res["paths"], "decisions": res["decisions"], "queries": res["queries"],
                                "solver_s": round(res["solver_s"], 2), "wall_s": round(res["wall_s"], 2),
                                "max_path_steps": res["max_path_steps"], "violations": len(res["violations"] or []),
                                "map_sites": res.get("map_sites") or {}, "note": j.note})
            if res["timed_out"] or res["pending"]:
                machinery.append("%s: exploration incomplete (timed_out=%s pending=%d)" % (j.key(), res["timed_out"], res["pending"]))
            for r in res["unsupported_reasons"] or []:
                txt = r.split("x ", 1)[1]
                if not any(re.search(p, txt) for p in j.allow_unsupported):
                    machinery.append("%s: unsupported path: %s" % (j.key(), r))
                cov["unsupported_reasons"].append(j.key() + ": " + r)
            if res["inconclusive"]:
                cov["inconclusive_reasons"] += [j.key() + ": " + r for r in res["inconclusive_reasons"] or []]
                if not j.allow_inconclusive:
                    machinery.append("%s: %d inconclusive solver answers: %s" % (j.key(), res["inconclusive"], res["inconclusive_reasons"]))
            if not j.no_complete_ok:
                viol_args = {v["args"] for v in res["violations"] or []}
                for a in res["argsets"]:
                    if not res["completed"].get(a) and a not in viol_args:
                        # vacuity guard (reachability witness): some path must reach the end of the harness
                        machinery.append("%s: no path of argset (%s) reached the end of the harness (vacuous?)" % (j.key(), a))
            binp = nat_fut[j.pkg].result() if j.native else None
            # translator validation: replay passing witnesses natively and compare observations
            if binp:
                for wi, w in enumerate(res["witnesses"] or []):
                    if any(iv["kind"] in ("m", "e", "s") for iv in (w["inputs"] or [])):
                        continue
                    tape = os.path.join(tmp, "w_%d_%d.tape" % (id(j) % 100000, wi))
                    write_tape(tape, j.harness, w["args"], w["inputs"])
                    nr = native_run(binp, tape)
                    eng_obs = [(bytes.fromhex(o["name"]), bytes.fromhex(o["val"])) for o in w["obs"] or []]
                    if nr["status"] != "done":
                        machinery.append("%s: passing witness (%s; %s) does not pass natively: %s %s\n%s" % (
                            j.key(), w["args"], decode_inputs(w["inputs"]), nr["status"], nr["msg"], nr["out"][-600:]))
                    elif nr["obs"] != eng_obs:
                        machinery.append("%s: observations differ engine vs native on (%s; %s): %r vs %r" % (
                            j.key(), w["args"], decode_inputs(w["inputs"]), eng_obs, nr["obs"]))
                    else:
                        cov["traces_validated_against_impl"] += 1
                        if len(cov["samples"]) < 12 and wi < 3:
                            cov["samples"].append({"harness": j.harness, "args": w["args"], "inputs": decode_inputs(w["inputs"]),
                                                   "observed": {a.decode("latin-1"): b.decode("latin-1") for a, b in eng_obs},
                                                   "ssa_steps": w["steps"], "native_replay": "agrees"})
            elif res["witnesses"] and len(cov["samples"]) < 12:
                for w in res["witnesses"][:2]:
                    cov["samples"].append({"harness": j.harness, "args": w["args"], "inputs": decode_inputs(w["inputs"])})
            # counterexample replay
            vf = spec.get("viol_filter")
            todo = []
            for vi, v in enumerate(res["violations"] or []):
                if vf and not re.search(vf, v["msg"]):
                    cov.setdefault("violations_of_other_properties_ignored", 0)
                    cov["violations_of_other_properties_ignored"] += 1
                    continue
                todo.append((vi, v))

            def confirm(item, j=j, binp=binp):
                vi, v = item
                tape = os.path.join(tmp, "v_%d_%d.tape" % (id(j) % 100000, vi))
                write_tape(tape, j.harness, v["args"], v["inputs"])
                order = any(iv["kind"] in ("m", "s", "q") for iv in (v["inputs"] or []))
                confirmed, nr = False, None
                if binp:
                    if v["kind"] == "race":
                        rb = native_binary(j.pkg, ovdirs[j.pkg], tmp, race=True)
                        for _ in range(20):
                            nr = native_run(rb, tape, timeout=60)
                            if nr.get("race"):
                                confirmed = True
                                break
                    elif v["kind"] in ("steps", "deadlock"):
                        nr = native_run(binp, tape, timeout=j.hang_timeout)
                        # (unbounded recursion ends natively in a fatal stack overflow instead of a hang)
                        confirmed = nr["status"] == "hang" or (nr["status"] == "panic" and "stack overflow" in (nr["msg"] + nr["out"]))
                    elif order:
                        for _ in range(max(j.order_repeats, 200)):
                            nr = native_run(binp, tape)
                            if nr["status"] in ("assert", "panic"):
                                confirmed = True
                                break
                    else:
                        nr = native_run(binp, tape, confirm_frozen=(v["kind"] == "frozen-write"))
                        if v["kind"] == "assert":
                            confirmed = nr["status"] == "assert" and nr["msg"] == v["msg"]
                        elif v["kind"] == "panic":
                            confirmed = nr["status"] == "panic"
                        elif v["kind"] == "frozen-write":
                            confirmed = nr["status"] == "assert"
                return v, confirmed, nr
            for v, confirmed, nr in pool.map(confirm, todo):
                if not confirmed:
                    machinery.append("%s: counterexample did not reproduce natively: kind=%s msg=%s args=%s inputs=%s native=%s" % (
                        j.key(), v["kind"], v["msg"], v["args"], decode_inputs(v["inputs"]),
                        (nr["status"] + " " + nr["msg"] + " " + nr["out"][-400:]) if nr else "n/a"))
                    continue
                violations.append((j, v, nr))

        # verdicts
        exit_code = 0
        nviol = 0
        rep_dir = os.path.join(ROOT, "replay", pid)
        shutil.rmtree(rep_dir, ignore_errors=True)  # replay files of an earlier run are stale
        lines = []
        for j, v, nr in violations:
            k = match_known(known, pid, j, v)
            if k is not None:
                known_hit.setdefault(k["id"], (k, j, v))
                continue
            nviol += 1
            os.makedirs(rep_dir, exist_ok=True)
            path = os.path.join(rep_dir, "%d.json" % nviol)
            json.dump({"property": pid, "pkg": j.pkg, "harness": j.harness, "args": v["args"], "kind": v["kind"], "msg": v["msg"],
                       "inputs": v["inputs"], "decoded": decode_inputs(v["inputs"]), "native": {"status": nr["status"], "msg": nr["msg"]},
                       "hang_timeout": j.hang_timeout}, open(path, "w"), indent=1)
            lines.append("VIOLATION property=%s replay=%s" % (pid, path))
            log("    %s %s: %s [%s] inputs: %s" % (j.key(), v["kind"], v["msg"], v["args"], decode_inputs(v["inputs"])))
            exit_code = 1
        for kid, (k, j, v) in sorted(known_hit.items()):
            print("KNOWN-FINDING: property=%s %s (%s; witness %s %s)" % (pid, k["what"], kid, v["args"], decode_inputs(v["inputs"])))
        for l in lines:
            print(l)
        if machinery:
            for m in machinery:
                log("MACHINERY: " + m)
            if exit_code == 0:
                exit_code = 2

        cov["functions_encoded"] = sorted(cov["functions_encoded"])
        cov["environment_stubs"] = sorted(cov.get("environment_stubs", []))
        cov["solver_s"] = round(cov["solver_s"], 2)
        cov["bounds"] = spec.get("bounds_" + tier, spec.get("bounds", ""))
        cov["outside_bounds"] = spec.get("outside", "")
        cov["known_findings_seen"] = sorted(known_hit)
        cov["machinery_errors"] = machinery
        cov["solver"] = SOLVER + " (one `-in` process per worker; assertion stack shared between consecutive queries via push/pop)"
        if not cov["samples"]:
            cov["samples"] = [{"note": "no passing witness recorded"}]
        ev = {"property_id": pid, "tier": tier, "seed": seed, "level": "model_checking", "coverage": cov,
              "assumptions": spec.get("assumptions", []) + checks.COMMON_ASSUMPTIONS,
              "wall_s": round(time.time() - t0, 2), "violations": nviol}
        os.makedirs(os.path.join(ROOT, "evidence"), exist_ok=True)
        if not only and not os.environ.get("VERIF_NO_EVIDENCE"):  # (seed runs on a changed tree leave the committed evidence alone)
            json.dump(ev, open(os.path.join(ROOT, "evidence", pid + ".json"), "w"), indent=1)
        log("%s %s: paths=%d queries=%d validated=%d violations=%d known=%d wall=%.1fs exit=%d" % (
            pid, tier, cov["states"], cov["queries"], cov["traces_validated_against_impl"], nviol, len(known_hit), time.time() - t0, exit_code))
        return exit_code
    finally:
        shutil.rmtree(tmp, ignore_errors=True)


def build_engine():
    os.makedirs(os.path.join(ROOT, "bin"), exist_ok=True)
    r = subprocess.run(["go", "build", "-o", GOSYM, "."], cwd=os.path.join(ROOT, "engine"), env=GOENV, capture_output=True, text=True)
    if r.returncode != 0:
        raise MachineryError("engine build failed:\n" + r.stdout + r.stderr)


def setup():
    build_engine()
    r = subprocess.run(["go", "test", "-count=1", "./..."], cwd=os.path.join(ROOT, "models"), env=GOENV, capture_output=True, text=True)
    sys.stderr.write(r.stdout[-2000:] + r.stderr[-2000:])
    if r.returncode != 0:
        raise MachineryError("model validation failed")
    r = subprocess.run([GOSYM, "-selftest"], capture_output=True, text=True)
    sys.stderr.write(r.stdout + r.stderr)
    if r.returncode != 0:
        raise MachineryError("engine self test failed")
    # the happens-before tracker must report a deliberately racy use of the lexer
    tmp = tempfile.mkdtemp(prefix="vsetup_")
    try:
        ov = build_overlay("parse", tmp)
        res = run_gosym(Job("parse", "H_raceSelftest", "", workers=1), ov, tmp)
        if not any(v["kind"] == "race" for v in res["violations"] or []):
            raise MachineryError("race tracker self test: the racy harness was not reported")
        res = run_gosym(Job("parse", "H_validFile", "", workers=1), ov, tmp)
        if res["violations"] or res["paths"] != 1:
            raise MachineryError("engine smoke test failed")
        res = run_gosym(Job("parse", "H_selectSelftest", "0..3,0..3,0..1", workers=4), ov, tmp)
        if res["violations"] or res["unsupported"] or res["paths"] < 32:
            raise MachineryError("select model self test failed: %s" % (res["violations"] or res.get("unsupported_reasons")))
        binp = native_binary("parse", ov, tmp)
        for w in (res.get("witnesses") or [])[:40]:
            if any(iv["kind"] == "s" for iv in (w["inputs"] or [])):
                continue
            tape = os.path.join(tmp, "st.tape")
            write_tape(tape, "H_selectSelftest", w["args"], w["inputs"])
            nr = native_run(binp, tape, timeout=8.0)
            if nr["status"] != "done":
                raise MachineryError("select model self test: native run disagrees: %s %s" % (nr["status"], nr["msg"]))
        res = run_gosym(Job("parse", "H_wgSelftest", "0..3", workers=2), ov, tmp)
        if res["violations"] or res["unsupported"] or res["paths"] < 7:
            raise MachineryError("WaitGroup/atomic model self test failed: %s" % (res["violations"] or res.get("unsupported_reasons")))
        sys.stderr.write("race tracker, select and WaitGroup model self tests ok\n")
    finally:
        shutil.rmtree(tmp, ignore_errors=True)
    return 0


def replay(path):
    d = json.load(open(path))
    tmp = tempfile.mkdtemp(prefix="vreplay_")
    try:
        ov = build_overlay(d["pkg"], tmp)
        binp = native_binary(d["pkg"], ov, tmp)
        tape = os.path.join(tmp, "t.tape")
        write_tape(tape, d["harness"], d["args"], d["inputs"])
        nr = native_run(binp, tape, timeout=d.get("hang_timeout", 8.0))
        print("replay of %s: harness=%s args=%s inputs: %s" % (path, d["harness"], d["args"], d["decoded"]))
        print("native result: %s %s" % (nr["status"], nr["msg"]))
        print(nr["out"][-1500:])
        bad = nr["status"] in ("assert", "panic", "hang")
        if bad:
            print("VIOLATION property=%s replay=%s" % (d["property"], path))
        return 1 if bad else 0
    finally:
        shutil.rmtree(tmp, ignore_errors=True)


def diff_solvers(pid, solvers=("z3-new", "z3", "cvc5")):
    """Re-run the quick jobs of a property under each solver and compare what must not depend on
    the solver: feasible paths, infeasible branches, violations. Any `(error`/unknown is reported."""
    import checks
    spec = checks.PROPS[pid]
    jobs = [j for j in spec["jobs"] if j.tier == "quick"]
    tmp = tempfile.mkdtemp(prefix="vdiff_%s_" % pid)
    bad = 0
    try:
        if not os.path.exists(GOSYM):
            build_engine()
        ov = {}
        for j in jobs:
            if j.pkg not in ov:
                ov[j.pkg] = build_overlay(j.pkg, tmp)
        for j in jobs:
            rows = {}
            for sv in solvers:
                r = run_gosym(j, ov[j.pkg], tmp, solver=sv)
                rows[sv] = (r["paths"], r["infeasible"], sorted((v["args"], v["kind"], v["msg"]) for v in r["violations"] or []),
                            r["inconclusive"], r["unsupported"])
            ref = rows[solvers[0]]
            for sv in solvers[1:]:
                same = rows[sv][:3] == ref[:3]
                note = "" if same else "  <-- DIFFERS"
                if rows[sv][3] or ref[3]:
                    note += "  (inconclusive: %s=%d %s=%d)" % (solvers[0], ref[3], sv, rows[sv][3])
                    same = same or (rows[sv][3] > 0 or ref[3] > 0)
                if not same:
                    bad += 1
                print("%-55s %s paths=%d infeasible=%d viol=%d | %s paths=%d infeasible=%d viol=%d%s" % (
                    j.key(), solvers[0], ref[0], ref[1], len(ref[2]), sv, rows[sv][0], rows[sv][1], len(rows[sv][2]), note), flush=True)
    finally:
        shutil.rmtree(tmp, ignore_errors=True)
    return 1 if bad else 0


def main():
    a = sys.argv[1:]
    try:
        if len(a) >= 2 and a[0] == "--diff-solvers":
            return max(diff_solvers(p) for p in a[1:])
        if a and a[0] == "--setup":
            return setup()
        if len(a) == 2 and a[0] == "--replay":
            return replay(a[1])
        if len(a) == 2 and a[1] in ("quick", "thorough"):
            return run_check(a[0], a[1])
    except MachineryError as e:
        log("MACHINERY: " + str(e))
        return 2
    print(__doc__)
    return 2


if __name__ == "__main__":
    sys.exit(main())
